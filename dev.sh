#!/bin/sh
# developer helper: build build/all.rs and run verus on it; prints errors
cd /verif && python3 - "$@" <<'PY'
import sys, json, subprocess, time
sys.path.insert(0,'/verif')
from vpipe import build
b=build.build('/repo','/verif')
open('/verif/build/all.rs','w').write(b.text())
for k,why in b.skipped: print('SKIPPED HINT',k,why)
args=sys.argv[1:]
t=time.time()
p=subprocess.run(['verus','all.rs','--cfg','feature="yoloproofs"','--error-format=json','--output-json','--time','--multiple-errors','5','--rlimit',__import__('os').environ.get('RL','150')]+args,cwd='/verif/build',capture_output=True,text=True)
open('/verif/build/o.json','w').write(p.stdout); open('/verif/build/e.jsonl','w').write(p.stderr)
n=0
for l in p.stderr.split('\n'):
    if not l.strip(): continue
    try: d=json.loads(l)
    except Exception: print(l[:300]); continue
    if d.get('level')=='error':
        n+=1
        if n<=30:
            r=d['rendered']
            print(r[:1200])
            for sp in d['spans']:
                if sp['file_name']=='all.rs':
                    o=b.origin[sp['line_start']-1]
                    f=b.fn_at(sp['line_start'])
                    print('    @',sp['line_start'],o,f['key'] if f else None, sp.get('label'))
print('errors',n,'time %.1f'%(time.time()-t))
try:
    d=json.loads(p.stdout); print(d['verification-results'])
except Exception as e: print('no json',e)
PY
