"""Directed search for a concrete failing input, run ONLY after a proof obligation of a property failed
(DESIGN.md §3.6).  It drives the real crate at `repo` through its public API (harness crate: witness/).
It never decides anything: found => the VIOLATION line carries a replayable input; not found (or the
harness does not build against the changed tree) => the VIOLATION line ends with no-failing-input-found."""
import json
import os
import shutil
import subprocess

SEARCHABLE = ('C01', 'C02', 'C03', 'C05', 'C07', 'C08', 'C11', 'C12', 'C13', 'C14', 'C15', 'C16', 'C17')


def _build(verif, repo):
    src = os.path.join(verif, 'build', 'witness-src')
    if os.path.exists(src):
        shutil.rmtree(src)
    shutil.copytree(os.path.join(verif, 'witness'), src)
    toml = open(os.path.join(src, 'Cargo.toml')).read().replace('path = "/repo"', 'path = "%s"' % os.path.abspath(repo))
    open(os.path.join(src, 'Cargo.toml'), 'w').write(toml)
    lock = os.path.join(repo, 'Cargo.lock')
    if os.path.exists(lock):
        shutil.copy(lock, os.path.join(src, 'Cargo.lock'))
    env = dict(os.environ, CARGO_NET_OFFLINE='true', CARGO_TARGET_DIR=os.path.join(verif, 'build', 'witness-target'))
    p = subprocess.run(['cargo', 'build', '--offline', '--quiet'], cwd=src, env=env, capture_output=True, text=True, timeout=1500)
    if p.returncode != 0:
        raise RuntimeError('witness harness does not build against this tree: ' + p.stderr[-600:])
    return os.path.join(verif, 'build', 'witness-target', 'debug', 'verif-witness')


def _run(binary, args, tier):
    env = dict(os.environ, VERIF_WITNESS_DEPTH='5' if tier == 'thorough' else '4')
    p = subprocess.run([binary] + args, capture_output=True, text=True, timeout=1800, env=env)
    for ln in p.stdout.splitlines():
        if ln.startswith('{'):
            return json.loads(ln)
    raise RuntimeError('witness harness gave no result (rc=%s): %s' % (p.returncode, p.stderr[-400:]))


def search(verif, repo, prop, failed, tier):
    if prop not in SEARCHABLE:
        return {'found': False, 'searched': False, 'reason': 'no directed search exists for %s (the property speaks about all inputs of a relation, not about one observable run)' % prop}
    binary = _build(verif, repo)
    r = _run(binary, [prop], tier)
    r['searched'] = True
    r['harness'] = 'witness/src/main.rs (public API of the crate at %s)' % repo
    return r


def replay(verif, repo, prop, w):
    binary = _build(verif, repo)
    r = _run(binary, [prop, '--replay', json.dumps(w.get('input'))], 'quick')
    print(json.dumps(r))
    if r.get('found'):
        print('REPRODUCED property=%s input=%s: %s' % (prop, json.dumps(r.get('input')), r.get('observed')))
        return 1
    print('not reproduced on this tree (input %s)' % json.dumps(w.get('input')))
    return 0
