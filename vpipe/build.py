"""Assemble the single Verus input file from prelude + extracted repo source + woven contracts."""
import glob
import hashlib
import os
from . import extract, weave
from .extract import Undecided

HEADER = '''#![feature(allocator_api)]
#![allow(non_snake_case, unused_imports, unused_variables, unused_mut, dead_code, unused_parens, unused_braces, private_interfaces)]
use vstd::prelude::*;
use vstd::std_specs::iter::IteratorSpec;
use core::ops::{Add, Mul, Sub, Neg, AddAssign, MulAssign, SubAssign};
use core::marker::PhantomData;
use core::borrow::{Borrow, BorrowMut};
use std::iter::FromIterator; use core::iter; use core::mem;
verus! {
global size_of usize == 8;
'''
VX_OPEN = 'pub mod vx {\nuse vstd::prelude::*;\n'
VX_CLOSE = '}\nuse vx::*;\n'
VP_OPEN = ('pub mod vp {\nuse vstd::prelude::*;\n')
VP_CLOSE = '}\nuse vp::*;\nbroadcast use {vx::vx_axioms, vp::field_ops, vp::group_ops, vp::ax_np2, vp::sum_postcondition, vp::ax_vx_same, vp::ax_field_clone, vp::ax_point_clone};\n'
FOOTER = '\n} // verus!\nfn main() {}\n'


class Built:
    def __init__(self):
        self.lines = []
        self.origin = []
        self.fns = []          # fn range dicts with absolute line numbers
        self.clauses = {}
        self.fnspecs = []
        self.log = None
        self.canary_lines = {}
        self.prelude_files = []
        self.vspec_files = []
        self.skipped = []
        self.noterm = []

    def text(self):
        return '\n'.join(self.lines) + '\n'

    def sha(self):
        return hashlib.sha256(self.text().encode()).hexdigest()

    def add_text(self, text, origin_kind, name):
        for i, ln in enumerate(text.split('\n')):
            self.lines.append(ln)
            self.origin.append((origin_kind, name, i + 1, None) if origin_kind != 'repo' else ('repo', name, i + 1))

    def fn_at(self, line):
        for f in self.fns:
            if f['first'] <= line <= f['last']:
                return f
        return None


def build(repo, verif, canary=False, only_files=None, degrade=(), extern=()):
    b = Built()
    src, log = extract.extract_all(os.path.join(repo, 'src'))
    b.log = log
    items, fnspecs, blockitems = [], [], []
    vs = sorted(glob.glob(os.path.join(verif, 'contracts', '*.vspec')))
    b.vspec_files = vs
    for p in vs:
        it, fs, bi = weave.parse_vspec(p)
        items += it
        fnspecs += fs
        blockitems += bi
    b.fnspecs = fnspecs
    known = set(extract.FILES)
    for fs in fnspecs:
        if fs.file not in known:
            raise Undecided('%s:%d: unknown source file %s' % (fs.vfile, fs.vline, fs.file))

    def strip_trailing(t):
        return t[:-1] if t.endswith('\n') else t

    b.add_text(strip_trailing(HEADER), 'prelude', 'header')
    b.add_text(strip_trailing(VX_OPEN), 'prelude', 'header')
    b.add_text(strip_trailing(open(os.path.join(verif, 'prelude', 'vx.rs')).read()), 'prelude', 'prelude/vx.rs')
    b.add_text(strip_trailing(VX_CLOSE), 'prelude', 'header')
    b.add_text(strip_trailing(VP_OPEN), 'prelude', 'header')
    b.add_text(strip_trailing(open(os.path.join(verif, 'prelude', 'vp.rs')).read()), 'prelude', 'prelude/vp.rs')
    b.add_text(strip_trailing(VP_CLOSE), 'prelude', 'header')
    b.add_text(strip_trailing(open(os.path.join(verif, 'prelude', 'root.rs')).read()), 'prelude', 'prelude/root.rs')
    b.prelude_files = ['prelude/vx.rs', 'prelude/vp.rs', 'prelude/root.rs']
    for ln in extract.gen_codecs():
        b.lines.append(ln)
        b.origin.append(('prelude', 'generated-codec', 0, None))
    for (buf, vfile, vline) in items:
        for i, ln in enumerate(buf):
            b.lines.append(ln)
            b.origin.append(('contract', vfile, vline + i, None))
    for f in extract.FILES:
        if only_files is not None and f not in only_files:
            continue
        w = weave.weave_file(f, src[f], fnspecs, blockitems, canary=canary, degrade=degrade, extern=extern, linemap=extract.LINEMAPS.get(f))
        b.skipped += w.skipped
        b.noterm += [(f, n) for n in w.noterm]
        base = len(b.lines)
        b.lines.append('// ==== ' + f)
        b.origin.append(None)
        base += 1
        b.lines += w.lines
        b.origin += w.origin
        for r in w.fn_ranges:
            r = dict(r)
            for k in ('first', 'last', 'body_first'):
                r[k] += base
            b.fns.append(r)
        b.clauses.update(w.clauses)
        for k, ln in w.canary_lines.items():
            b.canary_lines[k] = ln + base
    b.add_text(strip_trailing(FOOTER), 'prelude', 'footer')
    return b
