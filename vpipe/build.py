"""Assemble the single Verus input file from prelude + extracted repo source + woven contracts."""
import glob
import hashlib
import os
from . import extract, weave
from .extract import Undecided

HEADER = '''#![feature(allocator_api)]
#![allow(non_snake_case, unused_imports, unused_variables, unused_mut, dead_code, unused_parens, unused_braces, private_interfaces)]
use vstd::prelude::*;
use vstd::std_specs::iter::IteratorSpec;
use core::ops::{Add, Mul, Sub, Neg, AddAssign, MulAssign, SubAssign};
use core::marker::PhantomData;
use core::borrow::{Borrow, BorrowMut};
use std::iter::FromIterator; use core::iter; use core::mem;
verus! {
global size_of usize == 8;
'''
VX_OPEN = 'pub mod vx {\nuse vstd::prelude::*;\n'
VX_CLOSE = '}\nuse vx::*;\n'
VP_OPEN = ('pub mod vp {\nuse vstd::prelude::*;\n')
VP_CLOSE = '}\nuse vp::*;\nbroadcast use {vx::vx_axioms, vp::field_ops, vp::group_ops, vp::ax_np2, vp::sum_postcondition, vp::ax_vx_same, vp::ax_field_clone, vp::ax_point_clone};\n'
FOOTER = '\n} // verus!\nfn main() {}\n'


class Built:
    def __init__(self):
        self.lines = []
        self.origin = []
        self.fns = []          # fn range dicts with absolute line numbers
        self.clauses = {}
        self.fnspecs = []
        self.log = None
        self.canary_lines = {}
        self.prelude_files = []
        self.vspec_files = []
        self.skipped = []
        self.noterm = []
        self.lemma_obls = {}
        self.restructured = {}
        self.part = 'main'
        self.zorro_gate = None

    def text(self):
        return '\n'.join(self.lines) + '\n'

    def sha(self):
        return hashlib.sha256(self.text().encode()).hexdigest()

    def add_text(self, text, origin_kind, name):
        for i, ln in enumerate(text.split('\n')):
            self.lines.append(ln)
            self.origin.append((origin_kind, name, i + 1, None) if origin_kind != 'repo' else ('repo', name, i + 1))

    def fn_at(self, line):
        for f in self.fns:
            if f['first'] <= line <= f['last']:
                return f
        return None


ZHEADER = '''#![allow(non_snake_case, unused_imports, unused_variables, unused_mut, dead_code, unused_parens, unused_braces)]
use vstd::prelude::*;
use core::ops::{Add, Mul};
verus! {
'''


def zorro_gate(verif):
    """do the constants declared in src/curve/zorro/* equal the ones the certificates in /verif were computed for?"""
    import json
    try:
        c = json.load(open(os.path.join(verif, 'contracts', 'zorro_cert.json')))
    except Exception:
        return False
    z = extract.ZORRO_CONSTS
    return (z.get('fq_modulus') == c['p'] and z.get('fr_modulus') == c['r'] and z.get('coeff_a') == c['a'] and z.get('coeff_b') == c['b']
            and z.get('g_generator_x') == c['gx'] and z.get('g_generator_y') == c['gy'])


def _lemma_obligations(b):
    """proof fns marked `// @obligation Cxx [gated]` in @spec items: their failures are violations of Cxx, not framework errors"""
    import re
    b.lemma_obls = {}
    i = 0
    while i < len(b.lines):
        mm = re.match(r'\s*//\s*@obligation\s+(C\d+)(\s+gated)?\s*$', b.lines[i])
        if mm and i + 1 < len(b.lines):
            nm = re.search(r'proof fn\s+(\w+)', b.lines[i + 1])
            if nm:
                depth = 0
                j = i + 1
                seen = False
                while j < len(b.lines):
                    depth += b.lines[j].count('{') - b.lines[j].count('}')
                    if '{' in b.lines[j]:
                        seen = True
                    if seen and depth == 0:
                        break
                    j += 1
                b.lemma_obls[nm.group(1)] = {'props': [mm.group(1)], 'gated': bool(mm.group(2)), 'first': i + 2, 'last': j + 1, 'marker': i + 1}
                i = j
        i += 1


def build(repo, verif, canary=False, only_files=None, degrade=(), extern=(), part='main'):
    b = Built()
    b.part = part
    weave.load_loop_baseline(verif)
    src, log = extract.extract_all(os.path.join(repo, 'src'))
    b.log = log
    items, fnspecs, blockitems = [], [], []
    vs = sorted(glob.glob(os.path.join(verif, 'contracts', '*.vspec')))
    # contracts/9*.vspec belong to the separate zorro (C14) file: a failing `by(compute_only)` aborts Verus' front end,
    # which must not take the other fifteen properties with it
    vs = [p for p in vs if os.path.basename(p).startswith('9') == (part == 'zorro')]
    b.vspec_files = vs
    for p in vs:
        it, fs, bi = weave.parse_vspec(p)
        items += it
        fnspecs += fs
        blockitems += bi
    b.fnspecs = fnspecs
    files = extract.ZFILES if part == 'zorro' else extract.FILES
    known = set(files)
    b.zorro_gate = zorro_gate(verif) if part == 'zorro' else None
    for fs in fnspecs:
        if fs.file not in known:
            raise Undecided('%s:%d: unknown source file %s' % (fs.vfile, fs.vline, fs.file))

    def strip_trailing(t):
        return t[:-1] if t.endswith('\n') else t

    if part == 'zorro':
        b.add_text(strip_trailing(ZHEADER), 'prelude', 'header')
        b.add_text(strip_trailing(open(os.path.join(verif, 'prelude', 'zorro.rs')).read()), 'prelude', 'prelude/zorro.rs')
        b.prelude_files = ['prelude/zorro.rs']
    else:
        b.add_text(strip_trailing(HEADER), 'prelude', 'header')
        b.add_text(strip_trailing(VX_OPEN), 'prelude', 'header')
        b.add_text(strip_trailing(open(os.path.join(verif, 'prelude', 'vx.rs')).read()), 'prelude', 'prelude/vx.rs')
        b.add_text(strip_trailing(VX_CLOSE), 'prelude', 'header')
        b.add_text(strip_trailing(VP_OPEN), 'prelude', 'header')
        b.add_text(strip_trailing(open(os.path.join(verif, 'prelude', 'vp.rs')).read()), 'prelude', 'prelude/vp.rs')
        b.add_text(strip_trailing(VP_CLOSE), 'prelude', 'header')
        b.add_text(strip_trailing(open(os.path.join(verif, 'prelude', 'root.rs')).read()), 'prelude', 'prelude/root.rs')
        b.prelude_files = ['prelude/vx.rs', 'prelude/vp.rs', 'prelude/root.rs']
        for ln in extract.gen_codecs():
            b.lines.append(ln)
            b.origin.append(('prelude', 'generated-codec', 0, None))
    for (buf, vfile, vline) in items:
        for i, ln in enumerate(buf):
            b.lines.append(ln)
            b.origin.append(('contract', vfile, vline + i, None))
    _lemma_obligations(b)
    if part == 'zorro' and not b.zorro_gate:
        # the certificates do not cover the declared constants: leave the gated lemmas out (they are undecided), so that
        # the ungated necessary conditions are still checked
        for nm, lo in b.lemma_obls.items():
            if lo['gated']:
                for k in range(lo['marker'] - 1, lo['last']):
                    b.lines[k] = '// (gated lemma %s left out: constants differ from the certified ones)' % nm if k == lo['marker'] - 1 else ''
    for f in files:
        if only_files is not None and f not in only_files:
            continue
        w = weave.weave_file(f, src[f], fnspecs, blockitems, canary=canary, degrade=degrade, extern=extern, linemap=extract.LINEMAPS.get(f))
        b.skipped += w.skipped
        b.restructured.update(w.restructured)
        b.noterm += [(f, n) for n in w.noterm]
        base = len(b.lines)
        b.lines.append('// ==== ' + f)
        b.origin.append(None)
        base += 1
        b.lines += w.lines
        b.origin += w.origin
        for r in w.fn_ranges:
            r = dict(r)
            for k in ('first', 'last', 'body_first'):
                r[k] += base
            b.fns.append(r)
        b.clauses.update(w.clauses)
        for k, ln in w.canary_lines.items():
            b.canary_lines[k] = ln + base
    b.add_text(strip_trailing(FOOTER), 'prelude', 'footer')
    return b
