"""Mechanical extraction of /repo/src into Verus-acceptable text.

Every rule is local and syntactic; every application is logged (rule, file, line).  The output
of each file has exactly the line structure of its source (dropped text becomes blank
lines), so a line of the extracted text *is* the same line of /repo/src/<file>.
"""
import re
from . import rsparse as rp

FILES = [
    'errors.rs',
    'transcript.rs',
    'util.rs',
    'generators.rs',
    'inner_product_proof.rs',
    'r1cs/linear_combination.rs',
    'r1cs/constraint_system.rs',
    'r1cs/proof.rs',
    'r1cs/verifier.rs',
    'r1cs/prover.rs',
]


class Undecided(Exception):
    """The pipeline cannot decide (lost anchor, unsupported construct, tool failure). Exit 2."""


class Log:
    def __init__(self):
        self.items = []

    def add(self, rule, file, line, note=''):
        self.items.append({'rule': rule, 'file': file, 'line': line, 'note': note})


def _keepnl(old, new):
    d = old.count('\n') - new.count('\n')
    if d < 0:
        raise Undecided('rewrite would add lines: %r' % new[:40])
    return new + '\n' * d


def _blank(s, a, b):
    return s[:a] + re.sub(r'[^\n]', ' ', s[a:b]) + s[b:]


def _sub(s, rx, repl, rule, file, log, flags=0, masked=True):
    """regex substitution located on the mask, applied on the source; line preserving."""
    m = rp.mask(s) if masked else s
    out = []
    pos = 0
    for mm in re.finditer(rx, m, flags):
        old = s[mm.start():mm.end()]
        new = mm.expand(repl) if isinstance(repl, str) else repl(mm, s)
        if new is None:
            continue
        out.append(s[pos:mm.start()])
        out.append(_keepnl(old, new))
        pos = mm.end()
        log.add(rule, file, rp.line_of(s, mm.start()), old.strip()[:60])
    out.append(s[pos:])
    return ''.join(out)


def strip_tests(s, file, log):
    i = s.find('#[cfg(test)]\nmod tests')
    if i >= 0:
        log.add('drop:cfg(test)', file, rp.line_of(s, i))
        s = _blank(s, i, len(s))
    return s


def drop_lines(s, file, log):
    lines = s.split('\n')
    k = 0
    n_use = n_doc = 0
    while k < len(lines):
        st = lines[k].strip()
        if re.match(r'(pub\s+)?use\s', st) or st.startswith('extern crate'):
            j = k
            while not lines[j].rstrip().endswith(';'):
                j += 1
            for q in range(k, j + 1):
                lines[q] = ''
            n_use += 1
            k = j + 1
            continue
        if st.startswith('///') or st.startswith('//!') or st.startswith('#!['):
            lines[k] = ''
            n_doc += 1
        k += 1
    log.add('drop:use', file, 0, '%d statements' % n_use)
    log.add('drop:doc/inner-attr', file, 0, '%d lines' % n_doc)
    return '\n'.join(lines)


def drop_impls(s, file, log):
    """errors.rs: fmt::Debug / fmt::Display impls and From<io::Error> are dropped."""
    m = rp.mask(s)
    for b in reversed(rp.find_blocks(m)):
        if b.kind == 'impl' and ('fmt::' in b.header or 'io::Error' in b.header):
            log.add('drop:impl', file, rp.line_of(s, b.kw), b.header)
            s = _blank(s, b.kw, b.close + 1)
    return s


KEEP_PRIVATE_FIELDS = ('AggregatedGensIter',)


def r1_visibility(s, file, log):
    s = _sub(s, r'pub\((super|crate)\)', 'pub', 'R1:pub', file, log)
    s = _sub(s, r'(?m)^struct\b', 'pub struct', 'R1:struct', file, log)
    # private struct fields -> pub
    m = rp.mask(s)
    out = s
    for mm in reversed(list(re.finditer(r'\bstruct\s+(\w+)[^;{(]*\{', m))):
        if mm.group(1) in KEEP_PRIVATE_FIELDS:
            continue   # carries a #[verifier::type_invariant] in the contracts: Verus requires private fields there
        o = mm.end() - 1
        c = rp.match_close(m, o)
        body = out[o + 1:c]
        mbody = m[o + 1:c]
        new = []
        pos = 0
        for fm in re.finditer(r'(?m)^(\s+)(?!pub\b)(\w+\s*:)', mbody):
            new.append(body[pos:fm.start()])
            new.append(fm.group(1) + 'pub ' + body[fm.start(2):fm.end(2)])
            pos = fm.end()
            log.add('R1:field', file, rp.line_of(s, o + 1 + fm.start()), fm.group(2))
        new.append(body[pos:])
        out = out[:o + 1] + ''.join(new) + out[c:]
    # private items (struct / fn / enum at column 0 or in impl) stay as they are: one module.
    return out


def r2_paths(s, file, log):
    return _sub(s, r'\b(util|crate::\w+|ark_serialize|ark_std::io)::', '', 'R2:path', file, log)


def r3_mut_self(s, file, log):
    out = ''
    pos = 0
    m = rp.mask(s)
    for mm in re.finditer(r'\bfn\s+\w+\s*(<[^({]*>)?\s*\(\s*mut self\b', m):
        if mm.start() < pos:
            continue
        b = m.index('{', mm.end())
        # the '{' must be the body: walk with the fn scanner
        fns = rp.find_fns(m, mm.start(), mm.end() + 1)
        if fns:
            b = fns[0].sig_end
        e = rp.match_close(m, b)
        head = s[mm.start():b + 1].replace('mut self', 'self', 1)
        body = s[b + 1:e]
        mb = m[b + 1:e]
        nb = []
        p = 0
        for sm in re.finditer(r'\bself\b', mb):
            nb.append(body[p:sm.start()])
            nb.append('this')
            p = sm.end()
        nb.append(body[p:])
        out += s[pos:mm.start()] + head + ' let mut this = self; ' + ''.join(nb)
        pos = e
        log.add('R3:mut-self', file, rp.line_of(s, mm.start()))
    out += s[pos:]
    return out


def r45_closures(s, file, log):
    """|(a, b)| E  ->  |p__N| { let (a, b) = p__N; E }   and   |_| -> |_e|"""
    s = _sub(s, r'\|_\|', '|_e|', 'R5:underscore-closure', file, log)
    n = 0
    while True:
        m = rp.mask(s)
        done = True
        for cl in rp.find_closures(m, 0, len(m)):
            params = cl.params.strip()
            if params.startswith('(') and not re.match(r'^\w+\s*:', params):
                n += 1
                name = 'p__%d' % n
                body = s[cl.body_start:cl.body_end]
                new = '|%s| { let %s = %s; %s }' % (name, s[cl.bar1 + 1:cl.bar2].strip(), name, body.strip())
                old = s[cl.bar1:cl.body_end]
                log.add('R4:closure-pattern', file, rp.line_of(s, cl.bar1), params[:50])
                # keep the line structure: body newlines are inside `body`
                s = s[:cl.bar1] + _keepnl(old, new) + s[cl.body_end:]
                done = False
                break
        if done:
            break
    return s


def r4b_for_mut_patterns(s, file, log):
    """for (PAT) in X.iter_mut() {  ->  for q__N in X.iter_mut() { let (PAT) = q__N;
    (Verus rejects a `mut ref` binding in a for-loop pattern once the loop carries an invariant)"""
    n = 0
    while True:
        m = rp.mask(s)
        hit = None
        for lp in rp.find_loops(m, 0, len(m)):
            if lp.kind != 'for':
                continue
            hm = re.match(r'for\s*(\(.*?\))\s+in\b(.*)$', m[lp.kw:lp.open], re.S)
            if hm and '.iter_mut()' in hm.group(2):
                hit = (lp, hm)
                break
        if not hit:
            break
        lp, hm = hit
        n += 1
        name = 'q__%d' % n
        pat = s[lp.kw + hm.start(1):lp.kw + hm.end(1)]
        log.add('R4b:for-mut-pattern', file, rp.line_of(s, lp.kw), pat)
        s = s[:lp.kw + hm.start(1)] + name + s[lp.kw + hm.end(1):lp.open + 1] + ' let %s = %s;' % (pat, name) + s[lp.open + 1:]
    return s


def r5_unnamed_params(s, file, log):
    cnt = [0]

    def us(mm, src):
        cnt[0] += 1
        return mm.group(1) + '_unused%d:' % cnt[0]
    return _sub(s, r'([(,]\s*|\n\s+)_:', us, 'R5:unnamed-param', file, log)


def r6_adaptors(s, file, log):
    for name in ('chain', 'cloned', 'enumerate', 'sum', 'map', 'filter', 'all', 'any'):
        s = _sub(s, r'\.' + name + r'\s*(\(|::<)', '.vx_' + name + r'\1', 'R6:' + name, file, log)
    return s


def r7_callbacks(s, file, log):
    s = _sub(s, r'Box<dyn Fn\(&mut (\w+<[^>]*>)\) -> Result<\(\), R1CSError>>', r'VxCallback<\1>',
             'R7:dyn-fn', file, log)
    s = _sub(s, r'Box::new\(callback\)', 'VxCallback::new(callback)', 'R7:box-new', file, log)
    s = _sub(s, r'\bcallback\(&mut wrapped_self\)', 'callback.call(&mut wrapped_self)', 'R7:call', file, log)
    s = _sub(s, r'callbacks\.drain\(\.\.\)', 'callbacks.into_iter()', 'R7:drain', file, log)
    return s


def r8_rand_vec(s, file, log):
    return _sub(s, r'\(0\.\.(\w+)\)\.map\(\|_e?\| G::ScalarField::rand\(&mut rng\)\)\.collect\(\)',
                r'vx_rand_vec::<G::ScalarField, _>(\1, &mut rng)', 'R8:rand-vec', file, log)


def r9_endless(s, file, log):
    s = _sub(s, r'exp_iter::<G>\((\w+)\)\s*\.take\((\w+)\)\s*\.collect::<Vec<[\w:]+>>\(\)',
             r'vx_exp_vec::<G>(\1, \2)', 'R9:exp-take', file, log)
    s = _sub(s, r'&mut GeneratorsChain::<G>::new\(&label\)\s*\.fast_forward\(([^()]*)\)\s*\.take\(([^()]*)\),',
             r'vx_chain_take::<G>(&label, \1, \2),', 'R9:chain-take', file, log)
    s = _sub(s, r'iter::repeat\(([^()]*(?:\(\))?)\)\s*\.take\(([^()]*)\)', r'vx_repeat_take(\1, \2)',
             'R9:repeat-take', file, log)
    return s


def r10_assert_eq(s, file, log):
    return _sub(s, r'assert_eq!\(([^,;]+), ([^;]+)\);', r'assert!(\1 == \2);', 'R10:assert_eq', file, log)


def r11_drop(s, file, log):
    return _sub(s, r'fn drop\(&mut self\) \{', 'fn drop(&mut self) opens_invariants none no_unwind {',
                'R11:drop', file, log)


CODECS = []   # filled per extract_all run: dicts {file, name, generics, fields:[(name, type)], line}


def r_derive(s, file, log):
    """strip derive(CanonicalSerialize, CanonicalDeserialize) and record the struct's real field list
    (declaration order) so that the stand-in codec impl is generated from it."""
    m = rp.mask(s)
    for mm in re.finditer(r'#\[derive\(([^)]*)\)\]', m):
        if 'CanonicalSerialize' not in mm.group(1):
            continue
        sm = re.compile(r'\bstruct\s+(\w+)\s*(<[^{]*>)?\s*\{').search(m, mm.end())
        if not sm:
            raise Undecided('derive(CanonicalSerialize) not followed by a struct in ' + file)
        o = sm.end() - 1
        c = rp.match_close(m, o)
        fields = []
        for fm in re.finditer(r'(?m)^\s*(?:pub(?:\([a-z]+\))?\s+)?(\w+)\s*:\s*([^,\n]+),?\s*$', m[o + 1:c]):
            fields.append((fm.group(1), fm.group(2).strip()))
        CODECS.append({'file': file, 'name': sm.group(1), 'generics': (sm.group(2) or '').strip(), 'fields': fields,
                       'line': rp.line_of(s, sm.start())})
    s = _sub(s, r',\s*CanonicalSerialize,\s*CanonicalDeserialize', '', 'drop:derive-serialize', file, log)
    return s


def codec_field_enc(expr, ty):
    ty = ' '.join(ty.split())
    if ty == 'G':
        return '%s.ser_c()' % expr
    if ty == 'G::ScalarField':
        return '%s.ser()' % expr
    if ty == 'Vec<G>':
        return 'enc_vec::<G>(%s@)' % expr
    if ty == 'Vec<Vec<G>>':
        return 'enc_vec_vec::<G>(%s@)' % expr
    if ty == 'usize':
        return 'u64_le(%s as u64)' % expr
    mm = re.match(r'(\w+)<G>$', ty)
    if mm:
        return '%s.enc()' % expr
    raise Undecided('codec generator: unsupported field type %r' % ty)


def gen_codecs():
    out = []
    for c in CODECS:
        g = c['generics']
        gn = re.sub(r':[^,>]*', '', g)
        out.append('// generated from %s:%d — field order is the declaration order of the real struct' % (c['file'], c['line']))
        out.append('impl%s CanonicalSerialize for %s%s {' % (g, c['name'], gn))
        out.append('    open spec fn enc(&self) -> Seq<u8> {')
        out.append('        Seq::<u8>::empty()')
        for fn_, ty in c['fields']:
            out.append('        + ' + codec_field_enc('self.' + fn_, ty))
        out.append('    }')
        out.append('    #[verifier::external_body]')
        out.append('    fn serialize_compressed(&self, w: &mut Cursor<Vec<u8>>) -> (r: Result<(), SerializationError>) { unimplemented!() }')
        out.append('}')
        out.append('impl%s CanonicalDeserialize for %s%s {' % (g, c['name'], gn))
        out.append('    uninterp spec fn valid_decoding(bytes: Seq<u8>, v: Self) -> bool;')
        for f in ('deserialize_compressed', 'deserialize_compressed_unchecked', 'deserialize_uncompressed'):
            out.append('    #[verifier::external_body]')
            out.append('    fn %s(r: &mut Cursor<&[u8]>) -> Result<Self, SerializationError> { unimplemented!() }' % f)
        out.append('}')
    return out


def r_misc(s, file, log):
    # `impl Iterator<Item = &G>` return types with elided lifetimes are fine; nothing to do.
    # `&self` passed where `self` is a reference already: `gens: &self` is accepted.
    return s


def r13_continue(s, file, log):
    """for .. { A; if C { S; continue; } REST }   ->   for .. { A; if C { S } else { REST } }
    (Verus: "for-loops do not yet support continue").  Only the shape where `continue;` is the last statement of an
    else-less `if` block that sits directly in the loop body."""
    for _round in range(20):
        m = rp.mask(s)
        done = True
        for lp in rp.find_loops(m, 0, len(m)):
            if lp.kind != 'for':
                continue
            body_lo, body_hi = lp.open, lp.close
            # `if` statements sitting directly in the loop body
            depth = 0
            pd = 0
            k = body_lo + 1
            while k < body_hi:
                ch = m[k]
                if ch == '{':
                    depth += 1
                elif ch == '}':
                    depth -= 1
                elif ch in '([':
                    pd += 1
                elif ch in ')]':
                    pd -= 1
                elif depth == 0 and pd == 0 and re.match(r'if\b', m[k:k + 3]) and not (m[k - 1].isalnum() or m[k - 1] == '_'):
                    # not an `else if`
                    if re.search(r'\belse\s*$', m[body_lo:k]):
                        k += 2
                        continue
                    # block start: first `{` at paren depth 0 after the condition
                    j = k + 2
                    q = 0
                    while j < body_hi:
                        if m[j] in '([':
                            q += 1
                        elif m[j] in ')]':
                            q -= 1
                        elif m[j] == '{' and q == 0:
                            break
                        j += 1
                    if j >= body_hi:
                        break
                    blk_open = j
                    blk_close = rp.match_close(m, blk_open)
                    cm = re.search(r'\bcontinue\s*;\s*$', m[blk_open + 1:blk_close])
                    has_else = re.match(r'\s*else\b', m[blk_close + 1:]) is not None
                    if cm and not has_else:
                        cpos = blk_open + 1 + cm.start()
                        cend = blk_open + 1 + cm.end()
                        log.add('R13:continue', file, rp.line_of(s, cpos), m[k:blk_open].strip()[:50])
                        s = (s[:cpos] + re.sub(r'[^\n]', ' ', s[cpos:cend]) + s[cend:blk_close + 1] + ' else {' + s[blk_close + 1:body_hi] + '} ' + s[body_hi:])
                        done = False
                        break
                    k = blk_close
                    depth = 0
                k += 1
            if not done:
                break
        if done:
            break
    return s


def r14_array_patterns(s, file, log):
    """let [a, b, c] = E;   ->   let vx_arrN = E; let a = vx_arrN[0]; let b = vx_arrN[1]; let c = vx_arrN[2];
    (Verus: "slice patterns" unsupported).  Same values when the element type is Copy — which rustc checks on the
    rewritten text; a non-Copy element type makes the text ill-typed and the run undecided."""
    n = 0
    while True:
        m = rp.mask(s)
        mm = re.search(r'\blet\s*\[\s*((?:mut\s+)?\w+(?:\s*,\s*(?:mut\s+)?\w+)*)\s*,?\s*\]\s*=', m)
        if not mm:
            break
        # end of statement: `;` at depth 0
        d = 0
        k = mm.end()
        while k < len(m):
            ch = m[k]
            if ch in '([{':
                d += 1
            elif ch in ')]}':
                d -= 1
            elif ch == ';' and d == 0:
                break
            k += 1
        n += 1
        names = [x.strip() for x in mm.group(1).split(',')]
        tmp = 'vx_arr%d' % n
        expr = s[mm.end():k]
        new = 'let %s =%s;' % (tmp, expr) + ''.join(' let %s = %s[%d];' % (nm, tmp, i) for i, nm in enumerate(names))
        log.add('R14:array-pattern', file, rp.line_of(s, mm.start()), mm.group(1)[:40])
        s = s[:mm.start()] + new + s[k + 1:]
    return s


SYN_NL = '\x01'   # synthetic newline added by a rewrite rule (does not advance the source line counter)


def r12_msm_args(s, file, log):
    """G::Group::msm(&A, &B)  ->  { let vx_mK = A;<nl>let vx_mK' = B;<nl>G::Group::msm(&vx_mK, &vx_mK') }
    for arguments that are iterator pipelines ending in `.collect::<Vec<..>>()`.  Same evaluation order, same values;
    it only gives the two argument vectors names so that proof steps can mention them."""
    n = 0
    while True:
        m = rp.mask(s)
        hit = None
        for mm in re.finditer(r'G::Group::msm\(', m):
            o = mm.end() - 1
            c = rp.match_close(m, o)
            inner = m[o + 1:c]
            # split the two top-level arguments
            d = 0
            cut = None
            for i, ch in enumerate(inner):
                if ch in '([{':
                    d += 1
                elif ch in ')]}':
                    d -= 1
                elif ch == ',' and d == 0:
                    cut = i
                    break
            if cut is None:
                continue
            a1 = s[o + 1:o + 1 + cut]
            a2 = s[o + 1 + cut + 1:c]
            a2s = a2.rstrip().rstrip(',').rstrip()
            def pipeline(t):
                t = t.strip()
                return t.startswith('&') and re.search(r'\.collect::<Vec<[^;]*>>\(\)$', t) is not None and '\n' in t
            if not (pipeline(a1) or pipeline(a2s)):
                continue
            hit = (mm.start(), o, c, a1, a2s)
            break
        if not hit:
            break
        st, o, c, a1, a2 = hit
        lets = []
        args = []
        for a in (a1, a2):
            t = a.strip()
            if t.startswith('&') and re.search(r'\.collect::<Vec<[^;]*>>\(\)$', t) and '\n' in t:
                n += 1
                nm = 'vx_m%d' % n
                lets.append('let %s = %s;' % (nm, a.strip()[1:].lstrip()))
                args.append('&' + nm)
            else:
                args.append(a.strip())
        new = '{ ' + SYN_NL.join(lets) + SYN_NL + 'G::Group::msm(' + ', '.join(args) + ') }'
        old = s[st:c + 1]
        log.add('R12:msm-args', file, rp.line_of(s.replace(SYN_NL, ''), st), '')
        # keep every real newline of the old text (they are inside the argument expressions, which are kept)
        d = old.count('\n') - new.count('\n')
        s = s[:st] + new + ('\n' * d if d > 0 else '') + s[c + 1:]
    return s


def r12b_collect_args(s, file, log):
    """X::create(a, &b, P.collect(), Q.collect(), c)  ->  { let vx_cK = P.collect();<nl>let vx_cK' = Q.collect();<nl>X::create(a, &b, vx_cK, vx_cK', c) }
    only when every argument to the left of a hoisted one is a plain (borrowed) place or a `.into_affine()` of one, so the
    evaluation order of anything with an effect is unchanged.  Gives the collected vectors names for proof steps."""
    n = 0
    pure = re.compile(r'^&?\s*(mut\s+)?[A-Za-z_][\w.]*(\.into_affine\(\))?$')
    while True:
        m = rp.mask(s)
        hit = None
        for mm in re.finditer(r'\bInnerProductProof::create\(', m):
            o = mm.end() - 1
            c = rp.match_close(m, o)
            inner = m[o + 1:c]
            cuts = []
            d = 0
            for i, ch in enumerate(inner):
                if ch in '([{':
                    d += 1
                elif ch in ')]}':
                    d -= 1
                elif ch == ',' and d == 0:
                    cuts.append(i)
            bounds = [-1] + cuts + [len(inner)]
            args = [s[o + 1 + bounds[i] + 1:o + 1 + bounds[i + 1]] for i in range(len(bounds) - 1)]
            if args and not args[-1].strip():
                args = args[:-1]
            idx = [i for i, a in enumerate(args) if re.search(r'\.collect(::<[^;]*>)?\(\)$', a.strip()) and not a.strip().startswith('vx_c')]
            if not idx:
                continue
            ok = all(pure.match(args[j].strip()) or j in idx for j in range(max(idx)))
            if not ok:
                continue
            hit = (mm.start(), o, c, args, idx)
            break
        if not hit:
            break
        st, o, c, args, idx = hit
        lets = []
        out = []
        for i, a in enumerate(args):
            if i in idx:
                n += 1
                nm = 'vx_c%d' % n
                lets.append('let %s: Vec<_> = %s;' % (nm, a.strip()))
                out.append(nm)
            else:
                out.append(a.strip())
        new = '{ ' + SYN_NL.join(lets) + SYN_NL + 'InnerProductProof::create(' + ', '.join(out) + ') }'
        old = s[st:c + 1]
        log.add('R12b:collect-args', file, rp.line_of(s.replace(SYN_NL, ''), st), '')
        d = old.count('\n') - new.count('\n')
        s = s[:st] + new + ('\n' * d if d > 0 else '') + s[c + 1:]
    return s


def r16_from_iterator(s, file, log):
    """impl<..> FromIterator<X> for LinearCombination<F> { fn from_iter<T>(iter: T) -> Self ..  ->  inherent impl with the SAME body:
    impl<F..> LinearCombination<F> { pub fn vx_from_iter_owned<T>(..) / vx_from_iter_ref<'a, T>(..) }.
    vstd marks FromIterator `impls_cannot_extend_spec`, so the trait method cannot carry a postcondition; nothing in src/ calls it."""
    if not file.endswith('linear_combination.rs'):
        return s
    pats = [
        (r"impl<F: PrimeField> FromIterator<\(Variable<F>, F\)> for LinearCombination<F> \{(\s*)fn from_iter<T>\(",
         r"impl<F: PrimeField> LinearCombination<F> {\1pub fn vx_from_iter_owned<T>("),
        (r"impl<'a, F: PrimeField> FromIterator<&'a \(Variable<F>, F\)> for LinearCombination<F> \{(\s*)fn from_iter<T>\(",
         r"impl<F: PrimeField> LinearCombination<F> {\1pub fn vx_from_iter_ref<'a, T>("),
    ]
    for rx, rep in pats:
        mm = re.search(rx, s)
        if mm:
            log.add('R16:from-iterator', file, rp.line_of(s, mm.start()), '')
            s = s[:mm.start()] + mm.expand(rep) + s[mm.end():]
    return s


def finish_linemap(s):
    """returns (text with synthetic newlines made real, linemap: source line of every output line)"""
    out_lines = []
    linemap = []
    src_line = 1
    cur = []
    for ch in s:
        if ch == '\n':
            out_lines.append(''.join(cur)); linemap.append(src_line); cur = []
            src_line += 1
        elif ch == SYN_NL:
            out_lines.append(''.join(cur)); linemap.append(src_line); cur = []
        else:
            cur.append(ch)
    out_lines.append(''.join(cur)); linemap.append(src_line)
    return '\n'.join(out_lines), linemap


def extract_file(repo_src, file, log):
    s = open(repo_src + '/' + file).read()
    s = strip_tests(s, file, log)
    s = drop_lines(s, file, log)
    if file == 'errors.rs':
        s = drop_impls(s, file, log)
    s = r16_from_iterator(s, file, log)
    s = r_derive(s, file, log)
    s = r1_visibility(s, file, log)
    s = r2_paths(s, file, log)
    s = r3_mut_self(s, file, log)
    s = r8_rand_vec(s, file, log)      # before closure rewriting (matches |_|)
    s = r45_closures(s, file, log)
    s = r4b_for_mut_patterns(s, file, log)
    s = r5_unnamed_params(s, file, log)
    s = r9_endless(s, file, log)
    s = r6_adaptors(s, file, log)
    s = r7_callbacks(s, file, log)
    s = r10_assert_eq(s, file, log)
    s = r11_drop(s, file, log)
    s = r13_continue(s, file, log)
    s = r14_array_patterns(s, file, log)
    s = r12_msm_args(s, file, log)
    s = r12b_collect_args(s, file, log)
    return finish_linemap(s)


# ---------------------------------------------------------------------------------------------------------------
# src/curve/zorro/*: constants and mul_by_a (C14).  The arkworks macros (MontConfig derive, MontFp!) are outside Verus'
# reach; what the repo itself declares are decimal constants and one routine.  Rule R15 turns each declared constant into a
# spec constant (`pub open spec fn zorro_<name>() -> nat { l4(limbs) }`, value copied digit by digit) and keeps the body of
# `mul_by_a` verbatim, retyped over the stand-in field trait.  Everything else in those files (use lines, type aliases, the
# impl headers, COFACTOR_INV, `#[generator]`) is dropped.  Line structure of each file is preserved.
# ---------------------------------------------------------------------------------------------------------------
ZFILES = ['curve/zorro/fq.rs', 'curve/zorro/fr.rs', 'curve/zorro/g1.rs']
ZORRO_CONSTS = {}
ED25519_FQ_MODULUS = 2 ** 255 - 19   # A15: modulus of ark_ed25519::Fq (a dependency, not repo code)


def _l4(n):
    if n < 0 or n >= 2 ** 256:
        raise Undecided('zorro constant out of the 256-bit range')
    if n < 2 ** 64:
        return '0x%xnat' % n
    return 'l4(%s)' % ', '.join('0x%xnat' % ((n >> (64 * i)) & (2 ** 64 - 1)) for i in range(4))


def _keep_lines(s, pieces):
    """blank everything except the given (start, end, replacement) pieces; replacement keeps the newline count"""
    out = []
    pos = 0
    for a, b, rep in sorted(pieces):
        out.append(re.sub(r'[^\n]', '', s[pos:a]))
        old = s[a:b]
        d = old.count('\n') - rep.count('\n')
        if d < 0:
            raise Undecided('zorro rewrite would add lines')
        out.append(rep + '\n' * d)
        pos = b
    out.append(re.sub(r'[^\n]', '', s[pos:]))
    return ''.join(out)


def extract_zorro(repo_src, file, log):
    s = open(repo_src + '/' + file).read()
    s = strip_tests(s, file, log)
    pieces = []
    if file.endswith('fq.rs'):
        mm = re.search(r'#\[modulus\s*=\s*"(\d+)"\]', s)
        if not mm:
            raise Undecided('curve/zorro/fq.rs: no #[modulus = ".."] attribute found')
        n = int(mm.group(1))
        ZORRO_CONSTS['fq_modulus'] = n
        pieces.append((mm.start(), mm.end(), 'pub open spec fn zorro_fq_modulus() -> nat { %s }' % _l4(n)))
        log.add('R15:zorro-const', file, rp.line_of(s, mm.start()), 'modulus')
    elif file.endswith('fr.rs'):
        mm = re.search(r'pub use ark_ed25519::Fq as Fr;', s)
        if not mm:
            raise Undecided('curve/zorro/fr.rs: the scalar field is no longer the re-export `ark_ed25519::Fq`; its modulus is declared outside the repository')
        ZORRO_CONSTS['fr_modulus'] = ED25519_FQ_MODULUS
        pieces.append((mm.start(), mm.end(), 'pub open spec fn zorro_fr_modulus() -> nat { %s }' % _l4(ED25519_FQ_MODULUS)))
        log.add('R15:zorro-const', file, rp.line_of(s, mm.start()), 'Fr = ark_ed25519::Fq (A15)')
    else:
        for mm in re.finditer(r'(?:pub\s+)?const\s+(\w+)\s*:\s*Fq\s*=\s*MontFp!\(\s*"(\d+)"\s*\)\s*;', s):
            name, n = mm.group(1), int(mm.group(2))
            ZORRO_CONSTS[name.lower()] = n
            pieces.append((mm.start(), mm.end(), 'pub open spec fn zorro_%s() -> nat { %s }' % (name.lower(), _l4(n))))
            log.add('R15:zorro-const', file, rp.line_of(s, mm.start()), name)
        mm = re.search(r"const\s+COFACTOR\s*:\s*&'static\s*\[u64\]\s*=\s*&\[([^\]]*)\]\s*;", s)
        if not mm:
            raise Undecided('curve/zorro/g1.rs: COFACTOR not found')
        elems = [e.strip() for e in mm.group(1).split(',') if e.strip()]
        ZORRO_CONSTS['cofactor'] = [int(e, 0) for e in elems]
        pieces.append((mm.start(), mm.end(), 'pub open spec fn zorro_cofactor() -> Seq<u64> { seq![%s] }' % ', '.join(e + 'u64' for e in elems)))
        log.add('R15:zorro-const', file, rp.line_of(s, mm.start()), 'COFACTOR')
        mm = re.search(r'const\s+GENERATOR\s*:\s*Affine<Self>\s*=\s*Affine::new_unchecked\(\s*(\w+)\s*,\s*(\w+)\s*\)\s*;', s)
        if not mm:
            raise Undecided('curve/zorro/g1.rs: GENERATOR is not Affine::new_unchecked(X, Y) of two named constants')
        pieces.append((mm.start(), mm.end(), 'pub open spec fn zorro_generator() -> (nat, nat) { (zorro_%s(), zorro_%s()) }' % (mm.group(1).lower(), mm.group(2).lower())))
        log.add('R15:zorro-const', file, rp.line_of(s, mm.start()), 'GENERATOR')
        m = rp.mask(s)
        mm = re.search(r'fn\s+mul_by_a\s*\(\s*(\w+)\s*:\s*Self::BaseField\s*\)\s*->\s*Self::BaseField\s*\{', m)
        if not mm:
            raise Undecided('curve/zorro/g1.rs: fn mul_by_a(x: Self::BaseField) -> Self::BaseField not found')
        o = mm.end() - 1
        c = rp.match_close(m, o)
        head = "pub fn zorro_mul_by_a<ZF: ZField + 'static>(%s: ZF) -> ZF where for<'zz> &'zz ZF: Add<&'zz ZF, Output = ZF> + Add<ZF, Output = ZF> {" % mm.group(1)
        pieces.append((mm.start(), c + 1, head + s[o + 1:c + 1]))
        log.add('R15:zorro-fn', file, rp.line_of(s, mm.start()), 'mul_by_a retyped over the stand-in field')
        for need in ('coeff_a', 'coeff_b'):
            if need not in ZORRO_CONSTS:
                raise Undecided('curve/zorro/g1.rs: %s is not a MontFp! decimal constant' % need.upper())
    text = _keep_lines(s, pieces)
    return text, list(range(1, text.count('\n') + 2))


LINEMAPS = {}


def extract_all(repo_src):
    log = Log()
    del CODECS[:]
    out = {}
    LINEMAPS.clear()
    for f in FILES:
        out[f], LINEMAPS[f] = extract_file(repo_src, f, log)
    ZORRO_CONSTS.clear()
    for f in ZFILES:
        out[f], LINEMAPS[f] = extract_zorro(repo_src, f, log)
    return out, log
