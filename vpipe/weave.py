"""Weave the contracts of /verif/contracts/*.vspec into the extracted source.

Only insertions (spec clauses, proof blocks, ghost lets, closure signatures, named returns,
spec items).  Anchors are pieces of *source text*; a missing or ambiguous anchor raises
Undecided (exit 2), never a violation.
"""
import os
import re
from . import rsparse as rp
from .extract import Undecided


class Clause:
    def __init__(self, cid, props, kind, text, vfile, vline):
        self.cid = cid          # obligation name, e.g. transcript.rs::Transcript::append_point#ensures[1]
        self.props = props      # list of property ids
        self.kind = kind
        self.text = text
        self.vfile = vfile
        self.vline = vline


class FnSpec:
    def __init__(self, file, container, name, vfile, vline):
        self.file, self.container, self.name = file, container, name
        self.vfile, self.vline = vfile, vline
        self.props = []
        self.ret = None
        self.attrs = []
        self.requires = []
        self.ensures = []
        self.decreases = None
        self.loops = []      # dicts
        self.closures = []   # dicts
        self.safety = None
        self.inserts = []    # dicts: where ('before'|'after'), anchor, k, text
        self.noverify = False

    @property
    def key(self):
        if getattr(self, '_key', None):
            return self._key
        return '%s::%s::%s' % (self.file, short_container(self.container), self.name)


def _strip_generics_prefix(c):
    """`impl<...> X` -> `X` (bracket matched)"""
    c = c.strip()
    m = re.match(r'impl\b\s*', c)
    if not m:
        return c
    c = c[m.end():]
    if c.startswith('<'):
        d = 0
        for i, ch in enumerate(c):
            if ch == '<':
                d += 1
            elif ch == '>' and c[i - 1] != '-':
                d -= 1
                if d == 0:
                    return c[i + 1:].strip()
    return c


def _drop_type_generics(t):
    """`Prover<'g, G, T>` -> `Prover`"""
    i = t.find('<')
    return t if i < 0 else t[:i]


def short_container(c):
    """stable short name of an impl/trait block: `Trait<Args> for Type`, `Type`, `trait Name`"""
    c = ' '.join(c.split())
    if not c:
        return ''
    if c.startswith('trait') or c.startswith('pub trait'):
        m = re.search(r'trait\s+(\w+)', c)
        return 'trait ' + m.group(1)
    c = _strip_generics_prefix(c)
    c = re.split(r'\bwhere\b', c)[0].strip()
    # split on top-level ` for `
    d = 0
    for i in range(len(c)):
        ch = c[i]
        if ch == '<':
            d += 1
        elif ch == '>' and c[i - 1] != '-':
            d -= 1
        elif d == 0 and c.startswith(' for ', i):
            tr = c[:i].strip()
            ty = _drop_type_generics(c[i + 5:].strip())
            return '%s for %s' % (tr, ty)
    return _drop_type_generics(c)


def parse_props(s):
    return [p for p in re.split(r'[,\s]+', s.strip()) if p]


_DIR = re.compile(r'^@(\w+)(?:\[([^\]]*)\])?\s*(.*)$')


def parse_vspec(path):
    """returns (items, fnspecs, blockitems)"""
    items = []       # (text, vfile, vline)  root-level spec items
    fnspecs = []
    blockitems = []  # (file, container, text, vfile, vline)
    vfile = os.path.basename(path)
    lines = open(path).read().split('\n')
    cur = None      # current FnSpec
    sink = None     # callable(text_line) receiving continuation lines
    last_loop = None
    last_closure = None

    def flush():
        pass

    i = 0
    while i < len(lines):
        ln = lines[i]
        m = _DIR.match(ln) if ln.startswith('@') else None
        if not m:
            if sink is not None:
                sink(ln)
            elif ln.strip() and not ln.strip().startswith('//'):
                raise Undecided('%s:%d: text outside a directive' % (vfile, i + 1))
            i += 1
            continue
        d, tag, rest = m.group(1), m.group(2), m.group(3)
        vline = i + 1
        if d == 'spec':
            buf = []
            items.append((buf, vfile, vline + 1))
            sink = buf.append
            cur = None
        elif d == 'fn':
            parts = [p.strip() for p in rest.split('|')]
            if len(parts) != 3:
                raise Undecided('%s:%d: @fn file | container | name' % (vfile, vline))
            cur = FnSpec(parts[0], parts[1], parts[2], vfile, vline)
            fnspecs.append(cur)
            sink = None
            last_loop = last_closure = None
        elif d == 'items':
            parts = [p.strip() for p in rest.split('|')]
            buf = []
            blockitems.append((parts[0], parts[1], buf, vfile, vline + 1))
            sink = buf.append
            cur = None
        elif cur is None:
            raise Undecided('%s:%d: @%s outside @fn' % (vfile, vline, d))
        elif d == 'props':
            cur.props = parse_props(rest)
            sink = None
        elif d == 'safety':
            # properties the function's IMPLICIT obligations (index bounds, overflow, unwrap, callee preconditions) serve;
            # default: @props
            cur.safety = parse_props(rest)
            sink = None
        elif d == 'ret':
            cur.ret = rest.strip()
            sink = None
        elif d == 'attr':
            cur.attrs.append(rest.strip())
            sink = None
        elif d in ('requires', 'ensures'):
            c = {'props': parse_props(tag) if tag else None, 'text': [rest], 'vline': vline}
            getattr(cur, d).append(c)
            sink = c['text'].append
        elif d == 'decreases':
            cur.decreases = {'text': [rest], 'vline': vline}
            sink = cur.decreases['text'].append
        elif d == 'loop':
            mm = re.match(r'(\d+)\s+"([^"]*)"(.*)$', rest)
            if not mm:
                raise Undecided('%s:%d: @loop N "header prefix" [iter=name]' % (vfile, vline))
            opts = dict(o.split('=', 1) for o in mm.group(3).split() if '=' in o)
            last_loop = {'n': int(mm.group(1)), 'prefix': mm.group(2), 'iter': opts.get('iter'),
                         'invariants': [], 'decreases': None, 'vline': vline, 'head': []}
            cur.loops.append(last_loop)
            sink = None
        elif d == 'invariant':
            c = {'props': parse_props(tag) if tag else None, 'text': [rest], 'vline': vline}
            last_loop['invariants'].append(c)
            sink = c['text'].append
        elif d == 'ldecreases':
            last_loop['decreases'] = {'text': [rest], 'vline': vline}
            sink = last_loop['decreases']['text'].append
        elif d == 'closure':
            mm = re.match(r'"([^"]*)"\s*(.*)$', rest)
            opts = {}
            for om in re.finditer(r'(\w+)="([^"]*)"', mm.group(2)):
                opts[om.group(1)] = om.group(2)
            km = re.search(r'#(\d+)', re.sub(r'"[^"]*"', '', mm.group(2)))
            last_closure = {'anchor': mm.group(1), 'k': int(km.group(1)) if km else None, 'param': opts.get('param'),
                            'ret': opts.get('ret'), 'requires': [], 'ensures': [], 'vline': vline}
            cur.closures.append(last_closure)
            sink = None
        elif d in ('censures', 'crequires'):
            c = {'props': parse_props(tag) if tag else None, 'text': [rest], 'vline': vline}
            last_closure['ensures' if d == 'censures' else 'requires'].append(c)
            sink = c['text'].append
        elif d in ('before', 'after', 'bodystart'):
            if d == 'bodystart':
                ins = {'where': d, 'anchor': None, 'k': None, 'text': [], 'vline': vline + 1, 'props': parse_props(tag) if tag else None}
            else:
                mm = re.match(r'"((?:[^"\\]|\\.)*)"\s*(?:#(\d+))?\s*$', rest)
                if not mm:
                    raise Undecided('%s:%d: @%s "line prefix" [#k]' % (vfile, vline, d))
                ins = {'where': d, 'anchor': mm.group(1).replace('\\"', '"'), 'k': int(mm.group(2)) if mm.group(2) else None,
                       'text': [], 'vline': vline + 1, 'props': parse_props(tag) if tag else None}
            cur.inserts.append(ins)
            sink = ins['text'].append
        else:
            raise Undecided('%s:%d: unknown directive @%s' % (vfile, vline, d))
        i += 1
    return items, fnspecs, blockitems


def _join(text_lines):
    # clause text: comment-only continuation lines (notes between directives) are not part of the clause
    t = '\n'.join(l for l in text_lines if not l.strip().startswith('//')).rstrip()
    return t


class Edit:
    __slots__ = ('pos', 'dele', 'text', 'origin', 'seq')

    def __init__(self, pos, dele, text, origin, seq):
        self.pos, self.dele, self.text, self.origin, self.seq = pos, dele, text, origin, seq


# number of loops each contracted function had when its contract was written (contracts/loop_counts.json, regenerated with
# tools/gen_loop_counts.py whenever contracts change).  A function whose loop structure differs needs NEW loop invariants before
# anything about it can be proved: its failed obligations are 'undecided', not violations.
LOOP_BASELINE = {}
ANCHOR_CTX_NOW = {}   # filled while weaving: neighbouring lines of every uniquely matched hint anchor (for tools/gen_loop_counts.py)


def load_loop_baseline(verif):
    import json
    LOOP_BASELINE.clear()
    try:
        LOOP_BASELINE.update(json.load(open(os.path.join(verif, 'contracts', 'loop_counts.json'))))
    except Exception:
        pass


class Woven:
    """result for one source file"""

    def __init__(self):
        self.lines = []      # output lines
        self.origin = []     # per output line: ('repo', file, line) or ('contract', vfile, vline, cid)
        self.fn_ranges = []  # (key, first_out_line, last_out_line, body_first, body_last, src_line, under_contract)
        self.clauses = {}    # cid -> Clause
        self.canary_lines = {}  # fn key -> out line (only in canary mode)


def locate_fn(m, spec):
    cands = []
    for f, b in rp.all_fns(m):
        if f.name != spec.name:
            continue
        header = b.header if b is not None else ''
        if spec.container == '':
            if b is None:
                cands.append((f, b))
        elif spec.container in header:
            cands.append((f, b))
    exact = [(f, b) for f, b in cands if b is not None and short_container(b.header) == ' '.join(spec.container.split())]
    if exact:
        cands = exact
    if len(cands) != 1:
        raise Undecided('anchor: function %s | %s | %s matches %d items (%s:%d)' % (
            spec.file, spec.container, spec.name, len(cands), spec.vfile, spec.vline))
    return cands[0]


def weave_file(file, src, fnspecs, blockitems, canary=False, degrade=(), extern=(), linemap=None):
    _raw_line_of = rp.line_of

    class _LM:
        @staticmethod
        def line_of(text, pos):
            ln = _raw_line_of(text, pos)
            if linemap is not None and text is src and 0 < ln <= len(linemap):
                return linemap[ln - 1]
            return ln
    lm_ = _LM
    """src: extracted text of one file.  Returns Woven."""
    m = rp.mask(src)
    edits = []
    seq = [0]
    clauses = {}
    contracted = {}
    skipped = []
    restructured = {}   # body-level directives that could not be placed (lost anchor) or were dropped on purpose (degrade)

    def add(pos, dele, text, origin):
        seq[0] += 1
        edits.append(Edit(pos, dele, text, origin, seq[0]))

    def clause_lines(prefix_kw, items, key, kind, default_props, indent):
        """returns list of (text, origin) lines for a clause group like requires/ensures"""
        out = []
        for k, c in enumerate(items, 1):
            cid = '%s#%s[%d]' % (key, kind, k)
            props = c['props'] if c['props'] is not None else default_props
            txt = _join(c['text'])
            clauses[cid] = Clause(cid, props, kind, txt, c.get('vfile'), c['vline'])
            first = True
            for tl in txt.split('\n'):
                out.append((indent + ('    ' if not first else '    ') + tl, cid))
                first = False
            # ensure trailing comma
            t, cid0 = out[-1]
            if not t.rstrip().endswith(','):
                out[-1] = (t.rstrip() + ',', cid0)
        if out:
            out.insert(0, (indent + prefix_kw, None))
        return out

    allf = rp.all_fns(m)
    blocks = rp.find_blocks(m)

    for (bfile, bcontainer, buf, vfile, vline) in blockitems:
        if bfile != file:
            continue
        cands = [b for b in blocks if bcontainer in b.header]
        exact = [b for b in cands if short_container(b.header) == ' '.join(bcontainer.split())]
        if exact:
            cands = exact
        if len(cands) != 1:
            raise Undecided('anchor: block %s | %s matches %d (%s:%d)' % (bfile, bcontainer, len(cands), vfile, vline))
        b = cands[0]
        text = '\n' + '\n'.join(buf).rstrip() + '\n'
        add(b.open + 1, 0, text, ('contract', vfile, vline, None))

    externalized = set()

    def _externalize(f, key, ind):
        """external_body fallback: the body is not verified AND not type-checked (it is replaced by `unimplemented!()`, line
        structure kept) — a body Verus or rustc-under-the-stand-ins rejects must not take the rest of the file with it"""
        ls = m.rfind('\n', 0, f.kw) + 1
        add(ls, 0, ind + '#[verifier::external_body]\n', ('contract', 'auto', 0, None))
        a, z = f.sig_end + 1, f.body_end
        add(a, z - a, ' unimplemented!() ' + '\n' * src.count('\n', a, z), ('contract', 'auto', 0, None))
        skipped.append((key, 'body not verified: Verus rejects a construct in it (external_body fallback, body replaced by unimplemented!())'))
        externalized.add(f.kw)

    for spec in fnspecs:
        if spec.file != file:
            continue
        f, b = locate_fn(m, spec)
        spec._key = '%s::%s::%s' % (file, short_container(b.header if b is not None else ''), f.name)
        key = spec.key
        contracted[f.kw] = key
        for c in spec.requires + spec.ensures:
            c['vfile'] = spec.vfile
        ind = ' ' * (f.kw - (m.rfind('\n', 0, f.kw) + 1))
        # attributes
        for a in spec.attrs:
            ls = m.rfind('\n', 0, f.kw) + 1
            add(ls, 0, ind + a + '\n', ('contract', spec.vfile, spec.vline, None))
        # named return
        if spec.ret:
            if f.arrow is None:
                raise Undecided('%s: @ret on a function without return type' % key)
            rt = src[f.ret_start:f.ret_end]
            add(f.ret_start, f.ret_end - f.ret_start, ' (%s: %s)%s' % (spec.ret, rt.strip(), '\n' if rt.endswith('\n') else ' '),
                ('repo', file, lm_.line_of(src, f.ret_start)))
        # signature clauses
        sig = []
        sig += clause_lines('requires', spec.requires, key, 'requires', spec.props, ind)
        sig += clause_lines('ensures', spec.ensures, key, 'ensures', spec.props, ind)
        if spec.decreases:
            cid = key + '#decreases'
            clauses[cid] = Clause(cid, spec.props, 'decreases', _join(spec.decreases['text']), spec.vfile, spec.decreases['vline'])
            sig.append((ind + 'decreases ' + _join(spec.decreases['text']) + ',', cid))
        if sig:
            # insert before '{' or ';' : put on own lines
            pos = f.sig_end
            chunks = [('\n', None)]
            text = '\n' + '\n'.join(t for t, _ in sig) + '\n' + ind
            # one edit per line so that origins are per clause
            add(pos, 0, '\n', ('repo', file, lm_.line_of(src, pos)))
            for t, cid in sig:
                cl = clauses.get(cid)
                add(pos, 0, t + '\n', ('contract', spec.vfile, cl.vline if cl else spec.vline, cid))
            add(pos, 0, ind, ('repo', file, lm_.line_of(src, pos)))
        if not f.has_body:
            if spec.loops or spec.closures or spec.inserts:
                raise Undecided('%s: body directives on a declaration' % key)
            continue
        lo, hi = f.sig_end + 1, f.body_end
        base0 = LOOP_BASELINE.get(key)
        loops0 = rp.find_loops(m, lo, hi)
        if base0 is not None and base0 != len(loops0):
            restructured[key] = 'the body has %d loops, its contract was written for %d' % (len(loops0), base0)
        for L0 in spec.loops:
            pre0 = ' '.join(L0['prefix'].split())
            if not any(q.header.startswith(pre0) for q in loops0):
                restructured[key] = 'loop %r of the contract is no longer in the body' % L0['prefix']
        if key in extern:
            _externalize(f, key, ind)
            continue
        if key in degrade:
            skipped.append((key, 'all body-level hints dropped: they no longer type-check against the changed body'))
            continue
        # loops
        loops = rp.find_loops(m, lo, hi)
        base = LOOP_BASELINE.get(key)
        if base is not None and base != len(loops):
            restructured[key] = 'the body has %d loops, its contract was written for %d' % (len(loops), base)
        for L in spec.loops:
            if L['n'] < 1 or L['n'] > len(loops) or not loops[L['n'] - 1].header.startswith(' '.join(L['prefix'].split())):
                # the loop this invariant was written for is gone or moved: try to find it by its header prefix
                cand = [q for q in loops if q.header.startswith(' '.join(L['prefix'].split()))]
                if len(cand) == 1:
                    lp = cand[0]
                else:
                    skipped.append((key, 'loop %d %r not found (%s:%d)' % (L['n'], L['prefix'], spec.vfile, L['vline'])))
                    restructured[key] = 'loop %r of the contract is no longer in the body' % L['prefix']
                    continue
            else:
                lp = loops[L['n'] - 1]
            lind = ' ' * (lp.kw - (m.rfind('\n', 0, lp.kw) + 1))
            if L['iter']:
                if lp.kind != 'for':
                    raise Undecided('%s: iter= on a non-for loop' % key)
                im = re.compile(r'\bin\b').search(m, lp.kw, lp.open)
                add(im.end(), 0, ' %s:' % L['iter'], ('repo', file, lm_.line_of(src, im.end())))
            lkey = '%s#loop[%d]' % (key, L['n'])
            for c in L['invariants']:
                c['vfile'] = spec.vfile
            ll = clause_lines('invariant', L['invariants'], lkey, 'invariant', spec.props, lind + '    ')
            if L['decreases']:
                cid = lkey + '.decreases'
                clauses[cid] = Clause(cid, spec.props, 'decreases', _join(L['decreases']['text']), spec.vfile, L['decreases']['vline'])
                ll.append((lind + '    decreases ' + _join(L['decreases']['text']) + ',', cid))
            if ll:
                pos = lp.open
                add(pos, 0, '\n', ('repo', file, lm_.line_of(src, pos)))
                for t, cid in ll:
                    cl = clauses.get(cid)
                    add(pos, 0, t + '\n', ('contract', spec.vfile, cl.vline if cl else L['vline'], cid))
                add(pos, 0, lind, ('repo', file, lm_.line_of(src, pos)))
        # closures
        closures = rp.find_closures(m, lo, hi)
        for ci, C in enumerate(spec.closures, 1):
            anchor = C['anchor']
            cands = []
            for cl in closures:
                ptxt = ' '.join(src[cl.bar1 + 1:cl.bar2].split())
                if ptxt == anchor:
                    cands.append(cl)
                    continue
                body = src[cl.body_start:cl.body_end]
                mm = re.match(r'\{\s*let\s+(.*?)\s*=\s*p__\d+;', body, re.S)
                if mm and ' '.join(mm.group(1).split()) == anchor:
                    cands.append(cl)
            if C['k'] is not None:
                if C['k'] > len(cands):
                    skipped.append((key, 'closure %r #%d not found (%s:%d)' % (anchor, C['k'], spec.vfile, C['vline'])))
                    continue
                cands = [cands[C['k'] - 1]]
            if len(cands) != 1:
                skipped.append((key, 'closure %r matches %d (%s:%d)' % (anchor, len(cands), spec.vfile, C['vline'])))
                continue
            cl = cands[0]
            ckey = '%s#closure[%d]' % (key, ci)
            pname = None
            body = src[cl.body_start:cl.body_end]
            ptxt = src[cl.bar1 + 1:cl.bar2].strip()
            newparam = C['param'] if C['param'] else ptxt
            mm = re.match(r'p__\d+$', ptxt)
            if mm and C['param']:
                # rename the synthetic parameter inside `let PAT = p__N;`
                pn = C['param'].split(':')[0].strip()
                lm = re.match(r'(\{\s*let\s+.*?=\s*)p__\d+;', body, re.S)
                if lm:
                    add(cl.body_start + lm.end(1), len(ptxt), pn, ('repo', file, lm_.line_of(src, cl.body_start)))
            head = '|%s|' % newparam
            if C['ret']:
                head += ' -> (%s)' % C['ret']
            add(cl.bar1, cl.bar2 + 1 - cl.bar1, head, ('repo', file, lm_.line_of(src, cl.bar1)))
            cind = ' ' * (cl.bar1 - (m.rfind('\n', 0, cl.bar1) + 1))
            for c in C['requires'] + C['ensures']:
                c['vfile'] = spec.vfile
            ll = clause_lines('requires', C['requires'], ckey, 'requires', spec.props, cind + '    ')
            ll += clause_lines('ensures', C['ensures'], ckey, 'ensures', spec.props, cind + '    ')
            pos = cl.body_start
            if ll:
                add(pos, 0, '\n', ('repo', file, lm_.line_of(src, pos)))
                for t, cid in ll:
                    c0 = clauses.get(cid)
                    add(pos, 0, t + '\n', ('contract', spec.vfile, c0.vline if c0 else C['vline'], cid))
                add(pos, 0, cind, ('repo', file, lm_.line_of(src, pos)))
            if m[cl.body_start] != '{':
                add(cl.body_start, 0, '{ ', ('repo', file, lm_.line_of(src, cl.body_start)))
                add(cl.body_end, 0, ' }', ('repo', file, lm_.line_of(src, cl.body_end)))
        # line-anchored inserts
        body_lines = []
        p = lo
        while p < hi:
            e = src.find('\n', p)
            if e < 0 or e > hi:
                e = hi
            body_lines.append((p, e))
            p = e + 1
        for ins in spec.inserts:
            text = '\n'.join(ins['text']).rstrip()
            if ins['where'] == 'bodystart':
                add(lo, 0, '\n' + text + '\n', ('contract', spec.vfile, ins['vline'], None, ins.get('props')))
                continue
            hits = []
            for alt in ins['anchor'].split(' || '):
                hits = [(a, z) for a, z in body_lines if src[a:z].strip().startswith(alt)]
                if hits:
                    break
            if ins['k'] is not None:
                if ins['k'] > len(hits):
                    skipped.append((key, 'line %r #%d not found (%s:%d)' % (ins['anchor'], ins['k'], spec.vfile, ins['vline'])))
                    continue
                hits = [hits[ins['k'] - 1]]
            if len(hits) == 0:
                skipped.append((key, 'line %r matches %d (%s:%d)' % (ins['anchor'], len(hits), spec.vfile, ins['vline'])))
                # a step of this function's proof is gone with the line it was attached to: what fails afterwards may be the
                # proof's fault, not the code's
                restructured.setdefault(key, 'a proof hint of its contract is anchored on a line that is no longer in the body (%r)' % ins['anchor'][:40])
                continue
            def _ctx(a, z):
                pl = [src[x:y].strip() for x, y in body_lines if y <= a and src[x:y].strip()]
                nl = [src[x:y].strip() for x, y in body_lines if x >= z and src[x:y].strip()]
                return [pl[-1] if pl else '', nl[0] if nl else '']
            ANCHOR_CTX_NOW['%s|%d' % (key, ins['vline'])] = _ctx(*hits[0]) if len(hits) == 1 else None
            if len(hits) > 1:
                # the anchored statement now occurs several times (e.g. duplicated into a new branch): prefer the occurrence whose
                # neighbouring lines are the ones recorded when the contract was written; no clear winner => every occurrence
                want = LOOP_BASELINE.get('__anchors__', {}).get('%s|%d' % (key, ins['vline']))
                if want:
                    sc = [sum(1 for u, v in zip(_ctx(a, z), want) if u == v) for a, z in hits]
                    best = max(sc)
                    if best > 0 and sc.count(best) == 1:
                        hits = [hits[sc.index(best)]]
                skipped.append((key, 'line %r matches several lines: hint woven at %d of them (%s:%d)' % (ins['anchor'], len(hits), spec.vfile, ins['vline'])))
            for a, z in hits:
                if ins['where'] == 'before':
                    add(a, 0, text + '\n', ('contract', spec.vfile, ins['vline'], None, ins.get('props')))
                else:
                    add(z, 0, '\n' + text, ('contract', spec.vfile, ins['vline'], None, ins.get('props')))

    # uncontracted functions whose text Verus rejects: same fallback
    if extern:
        for f, b in allf:
            if not f.has_body or f.kw in externalized or f.kw in contracted:
                continue
            k0 = FnSpec(file, b.header if b else '', f.name, '', 0).key
            if k0 in extern:
                _externalize(f, k0, ' ' * (f.kw - (m.rfind('\n', 0, f.kw) + 1)))

    # functions with `while`/`loop` loops that get no decreases from a contract: termination is not verified
    spec_by_kw = {}
    for spec in fnspecs:
        if spec.file == file:
            f, b = locate_fn(m, spec)
            spec_by_kw[f.kw] = spec
    w_noterm = []
    for f, b in allf:
        if not f.has_body:
            continue
        loops = rp.find_loops(m, f.sig_end + 1, f.body_end)
        need = [i + 1 for i, lp in enumerate(loops) if lp.kind in ('while', 'loop')]
        if not need:
            continue
        spec = spec_by_kw.get(f.kw)
        have = set(L['n'] for L in spec.loops if L['decreases']) if spec else set()
        if not all(n in have for n in need):
            ls = m.rfind('\n', 0, f.kw) + 1
            add(ls, 0, '#[verifier::exec_allows_no_decreases_clause]\n', ('contract', 'auto', 0, None))
            w_noterm.append(f.name)

    # canary: `proof { assert(false); }` as the first statement of every exec fn body under contract
    canary_pos = {}
    if canary:
        for f, b in allf:
            if f.has_body and f.kw in contracted and f.kw not in externalized:
                add(f.sig_end + 1, 0, '\nproof { assert(false); } // vacuity canary\n', ('canary', contracted[f.kw]))

    # ---- apply edits, tracking origins per output line ----
    edits.sort(key=lambda e: (e.pos, e.seq))
    segs = []   # (text, origin or None for source)
    pos = 0
    for e in edits:
        if e.pos < pos:
            raise Undecided('overlapping weave edits in %s at %d' % (file, e.pos))
        if e.pos > pos:
            segs.append((src[pos:e.pos], None, pos))
        segs.append((e.text, e.origin, e.pos))
        pos = e.pos + e.dele
    segs.append((src[pos:], None, pos))

    w = Woven()
    w.clauses = clauses
    w.noterm = w_noterm
    w.skipped = skipped
    w.restructured = restructured
    cur = []
    cur_or = []
    out_pos_map = []  # (src_pos, out_line) for source segments -> to map fn ranges
    for text, origin, spos in segs:
        parts = text.split('\n')
        for k, part in enumerate(parts):
            if k > 0:
                w.lines.append(''.join(cur))
                w.origin.append(_pick(cur_or))
                cur, cur_or = [], []
            if origin is None:
                off = spos + sum(len(x) + 1 for x in parts[:k])
                out_pos_map.append((off, len(w.lines) + 1))
                if part.strip():
                    cur_or.append(('repo', file, lm_.line_of(src, off)))
            else:
                if part.strip():
                    cur_or.append(origin)
            cur.append(part)
    w.lines.append(''.join(cur))
    w.origin.append(_pick(cur_or))

    def out_line(p):
        # output line of source position p
        best = None
        for off, ol in out_pos_map:
            if off <= p:
                best = (off, ol)
            else:
                break
        off, ol = best
        return ol + src.count('\n', off, p) - 0 if src.count('\n', off, p) == 0 else _scan(p)

    # robust mapping: recompute by walking segments
    def _scan(p):
        line = 1
        for text, origin, spos in segs:
            if origin is None:
                end = spos + len(text)
                if spos <= p < end or (p == end and (text, origin, spos) == segs[-1]):
                    return line + src.count('\n', spos, p)
            line += text.count('\n')
        return line

    for f, b in allf:
        key = contracted.get(f.kw)
        if key is None:
            tmp = FnSpec(file, b.header if b else '', f.name, '', 0)
            key = tmp.key
        first = _scan(f.kw)
        last = _scan(f.body_end)
        bfirst = _scan(f.sig_end) if f.has_body else last
        w.fn_ranges.append({'key': key, 'first': first, 'last': last, 'body_first': bfirst, 'has_body': f.has_body,
                            'src_line': lm_.line_of(src, f.kw), 'src_last': lm_.line_of(src, f.body_end), 'file': file,
                            'contract': f.kw in contracted, 'name': f.name})
    if canary:
        for i, o in enumerate(w.origin):
            if o and o[0] == 'canary':
                w.canary_lines[o[1]] = i + 1
    return w


def _pick(ors):
    if not ors:
        return None
    # a line that carries a contract clause is attributed to the clause
    for o in ors:
        if o[0] == 'contract' and o[3] is not None:
            return o
    for o in ors:
        if o[0] in ('contract', 'canary'):
            return o
    return ors[0]
