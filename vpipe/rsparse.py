"""Tiny Rust source scanner used by the extractor and the weaver.

Everything works on a *mask* of the source: a string of identical length in which the
contents of comments, string literals and char literals are replaced by blanks (newlines
kept).  Positions in the mask are positions in the source, so searching is done on the
mask and editing on the source.
"""
import re


def mask(s):
    out = list(s)
    i, n = 0, len(s)
    while i < n:
        c = s[i]
        if s.startswith('//', i):
            j = s.find('\n', i)
            if j < 0:
                j = n
            for k in range(i, j):
                out[k] = ' '
            i = j
            continue
        if s.startswith('/*', i):
            j = s.find('*/', i + 2)
            j = n if j < 0 else j + 2
            for k in range(i, j):
                if s[k] != '\n':
                    out[k] = ' '
            i = j
            continue
        if c == '"':
            j = i + 1
            while j < n and s[j] != '"':
                if s[j] == '\\':
                    j += 1
                j += 1
            for k in range(i + 1, min(j, n)):
                if s[k] != '\n':
                    out[k] = ' '
            i = j + 1
            continue
        if c == "'":
            m = re.match(r"'(\\.|\\x[0-9a-fA-F]{2}|[^\\'])'", s[i:])
            if m:
                for k in range(i + 1, i + m.end() - 1):
                    out[k] = ' '
                i += m.end()
                continue
        i += 1
    return ''.join(out)


OPEN = {'(': ')', '[': ']', '{': '}'}
CLOSE = {')': '(', ']': '[', '}': '{'}


def match_close(m, i):
    """m[i] is an opening bracket; return index of its partner."""
    d = 0
    o = m[i]
    c = OPEN[o]
    k = i
    while k < len(m):
        if m[k] == o:
            d += 1
        elif m[k] == c:
            d -= 1
            if d == 0:
                return k
        k += 1
    raise ValueError('unbalanced %r at %d' % (o, i))


def line_of(s, pos):
    return s.count('\n', 0, pos) + 1


class Fn:
    __slots__ = ('name', 'kw', 'start', 'params_open', 'params_close', 'arrow', 'ret_start',
                 'ret_end', 'where', 'sig_end', 'body_end', 'has_body', 'container')

    def __repr__(self):
        return 'Fn(%s in %r @%d)' % (self.name, self.container, self.kw)


def find_fns(m, lo=0, hi=None, container=''):
    """All `fn` items whose keyword lies in m[lo:hi] (nested fns in bodies are skipped)."""
    hi = len(m) if hi is None else hi
    out = []
    pos = lo
    while True:
        mm = re.compile(r'\bfn\s+(\w+)').search(m, pos, hi)
        if not mm:
            break
        f = Fn()
        f.name = mm.group(1)
        f.kw = mm.start()
        f.container = container
        # generics
        k = mm.end()
        while m[k].isspace():
            k += 1
        if m[k] == '<':
            d = 0
            while True:
                if m[k] == '<':
                    d += 1
                elif m[k] == '>' and m[k - 1] != '-':
                    d -= 1
                    if d == 0:
                        k += 1
                        break
                k += 1
            while m[k].isspace():
                k += 1
        if m[k] != '(':
            pos = mm.end()
            continue
        f.params_open = k
        f.params_close = match_close(m, k)
        # scan to '{' or ';' at depth 0
        k = f.params_close + 1
        f.arrow = None
        f.where = None
        d = 0
        while True:
            c = m[k]
            if c in '([':
                d += 1
            elif c in ')]':
                d -= 1
            elif d == 0:
                if c == '{' or c == ';':
                    break
                if m.startswith('->', k) and f.arrow is None and f.where is None:
                    f.arrow = k
                if re.match(r'\bwhere\b', m[k:k + 6]) and not (m[k - 1].isalnum() or m[k - 1] == '_') and f.where is None:
                    f.where = k
            k += 1
        f.sig_end = k
        f.has_body = (m[k] == '{')
        f.body_end = match_close(m, k) if f.has_body else k
        if f.arrow is not None:
            f.ret_start = f.arrow + 2
            f.ret_end = f.where if f.where is not None else f.sig_end
        else:
            f.ret_start = f.ret_end = None
        # start of item incl. visibility/attrs on the same or preceding lines
        ls = m.rfind('\n', 0, f.kw) + 1
        f.start = ls
        out.append(f)
        pos = f.body_end + 1
    return out


class Block:
    __slots__ = ('kind', 'header', 'kw', 'open', 'close')

    def __repr__(self):
        return 'Block(%s %r)' % (self.kind, self.header)


def find_blocks(m):
    """Top-level `impl` / `trait` blocks."""
    out = []
    depth = 0
    i = 0
    n = len(m)
    rx = re.compile(r'\b(impl|trait)\b')
    while i < n:
        c = m[i]
        if c == '{':
            i = match_close(m, i) + 1
            continue
        mm = rx.match(m, i)
        if mm and (i == 0 or not (m[i - 1].isalnum() or m[i - 1] == '_')):
            j = i
            while m[j] not in '{;':
                j += 1
            if m[j] == '{':
                b = Block()
                b.kind = mm.group(1)
                b.kw = i
                b.open = j
                b.close = match_close(m, j)
                b.header = ' '.join(m[i:j].split())
                out.append(b)
                i = b.close + 1
                continue
            i = j + 1
            continue
        i += 1
    return out


def all_fns(m):
    """(fn, block_or_None) for every function of the file: free fns and fns in impl/trait blocks."""
    blocks = find_blocks(m)
    res = []
    # free fns: those not inside any block
    covered = [(b.open, b.close) for b in blocks]
    for f in find_fns(m):
        if not any(a < f.kw < z for a, z in covered):
            res.append((f, None))
    for b in blocks:
        for f in find_fns(m, b.open + 1, b.close, b.header):
            res.append((f, b))
    res.sort(key=lambda t: t[0].kw)
    return res


class Loop:
    __slots__ = ('kw', 'kind', 'open', 'close', 'header')


def find_loops(m, lo, hi):
    out = []
    for mm in re.finditer(r'\b(for|while|loop)\b', m[lo:hi]):
        k = lo + mm.start()
        if k > 0 and (m[k - 1].isalnum() or m[k - 1] == '_'):
            continue
        kind = mm.group(1)
        j = lo + mm.end()
        if kind == 'for' and m[j:j + 1] == '<':
            continue  # for<'a>
        d = 0
        ok = True
        while j < hi:
            c = m[j]
            if c in '([':
                d += 1
            elif c in ')]':
                d -= 1
            elif c == '{' and d == 0:
                break
            elif c == ';' and d == 0:
                ok = False
                break
            j += 1
        if not ok or j >= hi:
            continue
        lp = Loop()
        lp.kw = k
        lp.kind = kind
        lp.open = j
        lp.close = match_close(m, j)
        lp.header = ' '.join(m[k:j].split())
        out.append(lp)
    return out


class Closure:
    __slots__ = ('bar1', 'bar2', 'body_start', 'body_end', 'params')


def find_closures(m, lo, hi):
    """Closures `|params| body` in m[lo:hi]. body_end is exclusive."""
    out = []
    i = lo
    while i < hi:
        if m[i] == '|':
            pre = m[:i].rstrip()
            starts = pre.endswith(('(', ',', '=', '{', ';')) or re.search(r'\bmove$', pre) is not None
            if not starts or m[i + 1] == '|':
                i += 1
                continue
            # find closing bar at depth 0
            d = 0
            j = i + 1
            while j < hi:
                c = m[j]
                if c in '([<':
                    d += 1
                elif c in ')]':
                    d -= 1
                elif c == '>' and m[j - 1] != '-':
                    d -= 1
                elif c == '|' and d <= 0:
                    break
                j += 1
            if j >= hi:
                i += 1
                continue
            cl = Closure()
            cl.bar1, cl.bar2 = i, j
            cl.params = m[i + 1:j]
            k = j + 1
            while m[k].isspace():
                k += 1
            cl.body_start = k
            if m[k] == '{':
                cl.body_end = match_close(m, k) + 1
            else:
                d = 0
                e = k
                while e < hi:
                    c = m[e]
                    if c in '([{':
                        d += 1
                    elif c in ')]}':
                        if d == 0:
                            break
                        d -= 1
                    elif c == ',' and d == 0:
                        break
                    e += 1
                cl.body_end = e
            out.append(cl)
            i = j + 1
            continue
        i += 1
    return out
