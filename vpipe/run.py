"""Run Verus on the assembled file, attribute every diagnostic to a function and (where possible)
to a contract clause, cache by content hash."""
import fcntl
import hashlib
import json
import os
import re
import subprocess
import time
from .extract import Undecided

VERUS_ARGS = ['--cfg', 'feature="yoloproofs"', '--error-format=json', '--output-json', '--time']


def _cache_dir(verif):
    d = os.path.join(verif, 'build', 'cache')
    os.makedirs(d, exist_ok=True)
    return d


def run_verus(verif, built, tag, extra_args, use_cache=True, timeout=3000):
    """returns dict(results) for the assembled file `built`."""
    text = built.text()
    args = VERUS_ARGS + list(extra_args)
    key = hashlib.sha256((text + '\0' + ' '.join(args)).encode()).hexdigest()[:32]
    cdir = _cache_dir(verif)
    cpath = os.path.join(cdir, key + '.json')
    lock = open(os.path.join(cdir, key + '.lock'), 'w')
    fcntl.flock(lock, fcntl.LOCK_EX)
    try:
        raw = None
        if use_cache and os.path.exists(cpath):
            try:
                raw = json.load(open(cpath))
                raw['cache'] = 'hit'
            except Exception:
                raw = None
        if raw is None:
            wdir = os.path.join(verif, 'build', 'run-' + key)
            os.makedirs(wdir, exist_ok=True)
            src = os.path.join(wdir, 'all.rs')
            open(src, 'w').write(text)
            t0 = time.time()
            try:
                p = subprocess.run(['verus', 'all.rs'] + args, cwd=wdir, capture_output=True, text=True, timeout=timeout)
            except subprocess.TimeoutExpired:
                raise Undecided('verus timed out after %ds (%s)' % (timeout, tag))
            raw = {'stdout': p.stdout, 'stderr': p.stderr, 'wall_s': round(time.time() - t0, 2), 'src': src, 'cache': 'miss'}
            json.dump(raw, open(cpath, 'w'))
        r = parse_output(built, raw['stdout'], raw['stderr'])
        r['wall_s'] = raw['wall_s']
        r['cmd'] = 'verus all.rs ' + ' '.join(args)
        r['sha'] = hashlib.sha256(text.encode()).hexdigest()
        r['tag'] = tag
        r['cache'] = raw['cache']
        r['src'] = raw['src']
        return r
    finally:
        fcntl.flock(lock, fcntl.LOCK_UN)
        lock.close()


def parse_output(built, stdout, stderr):
    res = {'errors': [], 'hard_errors': [], 'fn_times': {}, 'fn_ok': [], 'verus': None, 'summary': None, 'smt_ms': None}
    try:
        j = json.loads(stdout)
    except Exception:
        j = None
    if j is not None:
        res['summary'] = j.get('verification-results')
        res['verus'] = j.get('verus')
        try:
            t = j['times-ms']
            res['smt_ms'] = t['smt']['smt-run']
            res['total_ms'] = t['total']
            for mod in t['smt']['smt-run-module-times']:
                for fb in mod.get('function-breakdown', []):
                    res['fn_ok'].append((fb['function'], fb['success']))
                    res['fn_times'][fb['function']] = {'ms': fb['time'], 'rlimit': fb['rlimit'], 'success': fb['success']}
        except Exception:
            pass
    for ln in stderr.split('\n'):
        ln = ln.strip()
        if not ln.startswith('{'):
            continue
        try:
            d = json.loads(ln)
        except Exception:
            continue
        if d.get('level') != 'error':
            continue
        msg = d.get('message', '')
        if msg.startswith('aborting due to'):
            continue
        spans = []
        for sp in d.get('spans', []):
            spans.append({'file': sp['file_name'], 'line': sp['line_start'], 'line_end': sp['line_end'],
                          'label': sp.get('label'), 'primary': sp.get('is_primary', False)})
        e = {'msg': msg, 'spans': spans, 'rendered': d.get('rendered', '')[:4000], 'code': (d.get('code') or {}).get('code') if d.get('code') else None}
        attribute(built, e, front_end_failed=(j is None or not res['summary'] or bool(res['summary'].get('encountered-vir-error'))))
        if e['kind'] == 'hard':
            res['hard_errors'].append(e)
        else:
            res['errors'].append(e)
    if j is None or res['summary'] is None:
        res['hard_errors'].append({'msg': 'verus produced no JSON result', 'rendered': stderr[-3000:], 'spans': [], 'kind': 'hard',
                                   'fn': None, 'clause': None})
    elif res['summary'].get('encountered-vir-error') and not res['hard_errors'] and not res['errors']:
        res['hard_errors'].append({'msg': 'verus reported a VIR error', 'rendered': stderr[-3000:], 'spans': [], 'kind': 'hard',
                                   'fn': None, 'clause': None})
    return res


VERIF_MSGS = (
    'postcondition not satisfied', 'precondition not satisfied', 'assertion failed', 'invariant not satisfied',
    'possible arithmetic underflow/overflow', 'possible division by zero', 'decreases not satisfied',
    'loop invariant not satisfied', 'possible bit shift underflow/overflow', 'unreachable',
    'Resource limit (rlimit) exceeded', 'recommendation not met', 'cannot show invariant', 'possible',
    'could not prove termination', 'constructed value may fail to meet its declared type invariant',
    'cannot prove', 'failed',
)


def attribute(built, e, front_end_failed=False):
    """sets e['fn'] (key of the failing function), e['clause'] (cid or None), e['kind'], e['repo'] (file, line)"""
    msg = e['msg']
    # when the front end (rustc type checking, Verus mode/VIR checks) accepted the file, every error
    # diagnostic is a failed proof obligation; otherwise nothing was verified and all of them are hard errors
    is_verif = (not front_end_failed) and e.get('code') is None
    # a `by(compute_only)` assertion that evaluates to false is reported by Verus' front end (and stops the run), but it is
    # a decided obligation: the evaluator computed the value and it is not `true`
    if e.get('code') is None and (msg.startswith('assert_by_compute') or 'simplifies to false' in msg):
        is_verif = True
        e['compute_failure'] = True
    if is_verif and ('rlimit' in msg or 'Resource limit' in msg):
        e['kind'] = 'rlimit'
    elif is_verif:
        e['kind'] = 'obligation'
    else:
        e['kind'] = 'hard'
    fn = None
    clause = None
    clause_fn = None
    repo = None
    here = [s for s in e['spans'] if s['file'] == 'all.rs']
    # clause: a span on a woven contract line
    for s in here:
        o = built.origin[s['line'] - 1] if 0 < s['line'] <= len(built.origin) else None
        if o and o[0] == 'contract' and len(o) > 3 and o[3]:
            clause = o[3]
            cf = built.fn_at(s['line'])
            clause_fn = cf['key'] if cf else None
        if o and o[0] == 'canary':
            e['canary'] = o[1]
    # function: prefer spans inside a body that are not the clause span
    body_spans = []
    for s in here:
        f = built.fn_at(s['line'])
        if f is None:
            continue
        o = built.origin[s['line'] - 1]
        in_body = f['has_body'] and s['line'] >= f['body_first']
        body_spans.append((in_body, o is not None and o[0] == 'repo', s, f, o))
    body_spans.sort(key=lambda t: (not t[0], not t[1]))
    if body_spans:
        in_body, is_repo, s, f, o = body_spans[0]
        fn = f['key']
        for t in body_spans:
            if t[1]:
                repo = (t[4][1], t[4][2])
                break
    e['fn'] = fn
    e['clause'] = clause
    e['clause_fn'] = clause_fn
    e['repo'] = repo
    return e
