"""Per-property verdicts, evidence, replay files."""
import concurrent.futures
import glob
import hashlib
import json
import os
import re
import subprocess
import sys
import time
import traceback

from . import build, run
from .extract import Undecided

RLIMIT = '150'
MULTI = '6'


def eprint(*a):
    print(*a, file=sys.stderr)


def load_known(verif):
    findings, fixed = [], []
    p = os.path.join(verif, 'known_findings.txt')
    if os.path.exists(p):
        for ln in open(p):
            ln = ln.strip()
            if not ln or ln.startswith('#'):
                continue
            m = re.match(r'finding:\s+property=(\w+)\s+obligation=(\S+)\s+at=(\S+)\s+(.*)$', ln)
            if m:
                findings.append({'property': m.group(1), 'obligation': m.group(2), 'at': m.group(3), 'what': m.group(4)})
                continue
            m = re.match(r'fixed:\s+property=(\w+)\s+(\S+)\s+(.*)$', ln)
            if m:
                fixed.append({'property': m.group(1), 'commit': m.group(2), 'what': m.group(3)})
    return findings, fixed


def scan_trusted(built):
    """mechanical scan of the assembled file for everything that is assumed rather than proved"""
    pats = [('external_body', r'#\[verifier::external_body\]'), ('assume_specification', r'\bassume_specification\b'),
            ('axiom', r'\baxiom fn\b'), ('uninterp', r'\buninterp spec fn\b'), ('assume', r'\bassume\s*\('),
            ('admit', r'\badmit\s*\('), ('external_type_specification', r'external_type_specification'),
            ('external_trait_specification', r'external_trait_specification'),
            ('exec_allows_no_decreases_clause', r'exec_allows_no_decreases_clause')]
    out = []
    counts = {}
    for i, ln in enumerate(built.lines):
        code = ln.split('//')[0]
        for name, rx in pats:
            if re.search(rx, code):
                o = built.origin[i]
                where = '%s:%s' % (o[1], o[2]) if o else '?'
                nm = ''
                # name of the item: look ahead for fn / struct name
                for j in range(i, min(i + 4, len(built.lines))):
                    mm = re.search(r'\b(?:fn|struct|trait)\s+(\w+)|\[\s*([^\]]+?)\s*\]\s*\(', built.lines[j])
                    if mm:
                        nm = mm.group(1) or mm.group(2)
                        break
                out.append({'kind': name, 'item': nm, 'where': where, 'origin': o[0] if o else None})
                counts[name] = counts.get(name, 0) + 1
    return out, counts


def props_of_error(built, specs_by_key, e):
    """property ids a failed obligation is reported under, and the obligation's name"""
    fn = e.get('fn')
    lo = lemma_of_error(built, e)
    if lo:
        return list(built.lemma_obls[lo]['props']), 'lemma:%s' % lo
    spec = specs_by_key.get(fn)
    fprops = list(spec.props) if spec else []
    sprops = list(spec.safety) if spec and getattr(spec, 'safety', None) else fprops
    cid = e.get('clause')
    if cid and cid in built.clauses:
        c = built.clauses[cid]
        if c.kind == 'requires':
            # a callee's precondition failed at a call site in `fn`: the caller is at fault
            return sprops, '%s#safety(call:%s)' % (fn, cid)
        return list(c.props), cid
    # a woven proof step (assert in a hint block) that no longer goes through
    for sp in e.get('spans', []):
        if sp['file'] == 'all.rs' and 0 < sp['line'] <= len(built.origin):
            o = built.origin[sp['line'] - 1]
            if o and o[0] == 'contract' and (len(o) < 4 or o[3] is None) and 'assert' in e.get('msg', ''):
                hp = list(o[4]) if len(o) > 4 and o[4] else fprops
                # a section marker `// @props C03 C02` inside the hint block, above the failing assert, narrows it further
                ln = sp['line'] - 1
                while ln >= 0 and built.origin[ln] == o:
                    mm = re.search(r'@props\s+(C[0-9]+(?:[ ,]+C[0-9]+)*)', built.lines[ln])
                    if mm:
                        hp = [x for x in re.split(r'[,\s]+', mm.group(1).strip()) if x]
                        break
                    ln -= 1
                return hp, '%s#proof-step(%s:%s)' % (fn, o[1], o[2])
    return sprops, '%s#safety' % fn


def verus_name(key):
    """'r1cs/verifier.rs::ConstraintSystem<F> for Verifier::multiply' -> 'all::Verifier::multiply' (Verus' name in --time output)"""
    if not key:
        return None
    parts = key.split('::')
    fn = parts[-1]
    cont = '::'.join(parts[1:-1])
    if not cont:
        return 'all::' + fn
    if ' for ' in cont:
        cont = cont.split(' for ')[-1]
    cont = re.sub(r'^(trait|impl)\s+', '', cont)
    cont = re.sub(r'<.*$', '', cont).strip()
    return 'all::%s::%s' % (cont, fn)


def lemma_of_error(built, e):
    """name of the `// @obligation`-marked lemma an error lies in, if any"""
    for sp in e.get('spans', []):
        if sp['file'] == 'all.rs':
            for nm, lo in getattr(built, 'lemma_obls', {}).items():
                if lo['first'] <= sp['line'] <= lo['last']:
                    return nm
    return None


def scope_of(built, prop):
    keys = []
    for s in built.fnspecs:
        tagged = prop in s.props
        if not tagged:
            for cid, c in built.clauses.items():
                if cid.startswith(s.key + '#') and prop in c.props:
                    tagged = True
                    break
        if tagged:
            keys.append(s.key)
    return keys


def count_obligations(built, prop, scope):
    obs = []
    for cid, c in sorted(built.clauses.items()):
        if prop in c.props and c.kind in ('ensures', 'invariant', 'decreases'):
            obs.append(cid)
    for s in built.fnspecs:
        if prop in (s.safety if getattr(s, 'safety', None) else s.props) and s.key in scope:
            f = [x for x in built.fns if x['key'] == s.key]
            if f and f[0]['has_body']:
                obs.append(s.key + '#safety')
    for nm, lo in sorted(getattr(built, 'lemma_obls', {}).items()):
        if prop in lo['props'] and not (lo['gated'] and built.zorro_gate is False):
            obs.append('lemma:%s' % nm)
    return obs


def _fns_of_hard_errors(built, res):
    keys = set()
    for e in res['hard_errors']:
        k = e.get('fn')
        if k is None:
            for sp in e.get('spans', []):
                if sp['file'] == 'all.rs':
                    f = built.fn_at(sp['line'])
                    if f:
                        k = f['key']
                        break
        if k is None:
            return None
        keys.add(k)
    return keys


def both_runs(verif, repo, use_cache, extra=(), part='main'):
    """main run + canary run.  If Verus' front end rejects the assembled file because of text inside specific
    functions, fall back in two steps: (1) drop the body-level proof hints of those functions (they may refer to
    locals the change renamed or shadowed), (2) put those functions under external_body (the change uses a construct
    Verus does not support) — properties that depend on a function of step 2 are then undecided, the others are
    still decided."""
    args = ['--rlimit', RLIMIT, '--multiple-errors', MULTI, '--num-threads', '16', '-V', 'spinoff-all'] + list(extra)
    degrade, extern = set(), set()
    for rnd in range(12):
        main_b = build.build(repo, verif, canary=False, degrade=degrade, extern=extern, part=part)
        r1 = run.run_verus(verif, main_b, 'main', args, use_cache)
        if not r1['hard_errors']:
            break
        keys = _fns_of_hard_errors(main_b, r1)
        contracted = {s.key for s in main_b.fnspecs}
        if not keys:
            break
        new_deg = {k for k in keys if k in contracted and k not in degrade and k not in extern}
        if new_deg:
            degrade |= new_deg
            continue
        new_ext = {k for k in keys if k not in extern}
        if new_ext:
            extern |= new_ext
            degrade -= new_ext
            continue
        break
    can_b = build.build(repo, verif, canary=True, degrade=degrade, extern=extern, part=part)
    r2 = run.run_verus(verif, can_b, 'canary', ['--rlimit', '20', '--multiple-errors', '2', '--num-threads', '16'], use_cache)
    main_b.degraded = degrade
    main_b.externed = extern
    return main_b, can_b, r1, r2


def check_property(verif, repo, prop, tier, seed, use_cache=True, write_evidence=True):
    t0 = time.time()
    try:
        return _check(verif, repo, prop, tier, seed, use_cache, write_evidence, t0)
    except Undecided as u:
        # the proof is out of reach for this tree (restructured function, unsupported construct, resource limit ...): a BOUNDED
        # directed search through the public API of the real crate stands in; it can only refute (a concrete failing input is
        # definitive), never establish the property
        w = None
        try:
            from . import witness as wmod
            if prop in wmod.SEARCHABLE:
                w = wmod.search(verif, repo, prop, {}, tier)
        except Exception as ex:
            eprint('bounded stand-in unavailable: %s' % ex)
        if w and w.get('found'):
            os.makedirs(os.path.join(verif, 'replays'), exist_ok=True)
            rp = os.path.join(verif, 'replays', '%s-undecided-%s.json' % (prop, hashlib.sha256(json.dumps(w, sort_keys=True).encode()).hexdigest()[:10]))
            json.dump({'property': prop, 'failed_obligations': [{'obligation': 'bounded-stand-in', 'repo_location': None, 'verus_message': '',
                       'verus_output': 'proof undecided: %s\nthe bounded directed search through the public API found a failing input' % u}],
                       'witness': w, 'replay_cmd': './check %s --replay %s' % (prop, os.path.relpath(rp, verif))}, open(rp, 'w'), indent=1)
            print('VIOLATION property=%s replay=%s' % (prop, rp))
            if write_evidence:
                ev = {'property_id': prop, 'tier': tier, 'seed': seed, 'level': 'other',
                      'coverage': {'explanation': 'proof undecided (%s); bounded stand-in: %s' % (u, w.get('observed')), 'bound': w.get('observed')},
                      'assumptions': assumptions_text(prop), 'wall_s': round(time.time() - t0, 2), 'violations': 1}
                os.makedirs(os.path.join(verif, 'evidence'), exist_ok=True)
                json.dump(ev, open(os.path.join(verif, 'evidence', prop + '.json'), 'w'), indent=1)
            return 1
        eprint('UNDECIDED property=%s: %s%s' % (prop, u, (' (bounded stand-in found nothing: %s)' % w.get('observed')) if w and w.get('searched') else ''))
        if write_evidence:
            write_undecided_evidence(verif, prop, tier, seed, str(u), time.time() - t0)
        return 2
    except Exception:
        traceback.print_exc()
        eprint('UNDECIDED property=%s: internal error of the check' % prop)
        return 2


def write_undecided_evidence(verif, prop, tier, seed, why, wall):
    ev = {'property_id': prop, 'tier': tier, 'seed': seed, 'level': 'other',
          'coverage': {'explanation': 'UNDECIDED (exit 2): ' + why}, 'assumptions': [], 'wall_s': round(wall, 2), 'violations': 0}
    os.makedirs(os.path.join(verif, 'evidence'), exist_ok=True)
    json.dump(ev, open(os.path.join(verif, 'evidence', prop + '.json'), 'w'), indent=1)


def _check(verif, repo, prop, tier, seed, use_cache, write_evidence, t0, selftest=False, extra=()):
    manifest = json.load(open(os.path.join(verif, 'MANIFEST.json')))
    claimed = {c['property_id'] for c in manifest['checks']}
    if prop not in claimed:
        raise Undecided('property %s is not claimed in MANIFEST.json (see not_applicable)' % prop)
    main_b, can_b, r1, r2 = both_runs(verif, repo, use_cache, extra, part='zorro' if prop == 'C14' else 'main')
    specs_by_key = {s.key: s for s in main_b.fnspecs}
    scope = scope_of(main_b, prop)
    if not scope:
        raise Undecided('no contract serves property %s' % prop)
    ext_in_scope = [k for k in scope if k in getattr(main_b, 'externed', ())]
    if ext_in_scope and not r1['hard_errors']:
        raise Undecided('Verus does not support a construct now used in %s; its body cannot be verified' % ', '.join(ext_in_scope))
    if r1['hard_errors']:
        he = r1['hard_errors'][0]
        raise Undecided('Verus rejected the extracted source (unsupported construct or type error): %s @ %s' % (
            he['msg'][:200], he.get('repo') or he.get('fn')))
    # ---- the framework's own lemmas / spec items must verify: callers assume them ----
    for e in r1['errors']:
        if e.get('fn') is None and not lemma_of_error(main_b, e):
            where = [sp for sp in e['spans'] if sp['file'] == 'all.rs']
            org = main_b.origin[where[0]['line'] - 1] if where else None
            if org and org[0] in ('contract', 'prelude'):
                raise Undecided('a lemma / spec item of the framework itself does not verify (%s:%s): %s' % (org[1], org[2], e['msg']))
    # ---- canary: every function in scope must fail its `assert(false)` ----
    failed_canaries = set(e.get('canary') for e in r2['errors'] if e.get('canary'))
    compute_stop = any(e.get('compute_failure') for e in r1['errors'])
    if compute_stop:
        # Verus' evaluator refuted a `by(compute_only)` obligation and stopped: the verdict is decided by that failure
        failed_canaries |= set(scope)
    elif r2['hard_errors']:
        raise Undecided('canary run rejected: %s' % r2['hard_errors'][0]['msg'][:200])
    fn_has_body = {f['key']: f['has_body'] for f in main_b.fns}
    vacuous = [k for k in scope if fn_has_body.get(k) and k not in failed_canaries and k not in getattr(main_b, 'externed', ())]
    if vacuous:
        raise Undecided('vacuity canary did not fail for %s (contradictory precondition or axiom?)' % ', '.join(vacuous))
    # ---- obligations ----
    obligations = count_obligations(main_b, prop, scope)
    if not obligations:
        raise Undecided('zero obligations generated for %s' % prop)
    findings, fixed = load_known(verif)
    failed = {}
    undecided = []
    restructured_hits = {}
    for e in r1['errors']:
        props, name = props_of_error(main_b, specs_by_key, e)
        if prop not in props:
            continue
        if e['kind'] == 'rlimit':
            undecided.append((name, e))
            continue
        if e.get('fn') in getattr(main_b, 'degraded', ()) and e.get('fn') not in main_b.restructured:
            main_b.restructured[e.get('fn')] = 'its proof hints no longer type-check against the changed body (renamed or removed locals) and were dropped'
        if e.get('fn') in main_b.restructured:
            # the loop structure of this function changed: without new loop invariants nothing about it can be proved,
            # so a failed obligation here says "proof needs rework", not "property violated"
            restructured_hits.setdefault(e.get('fn'), []).append(name)
            continue
        failed.setdefault(name, []).append(e)
    if undecided and not failed:
        raise Undecided('resource limit exceeded on %s' % ', '.join(n for n, _ in undecided))
    if restructured_hits and not failed:
        raise Undecided('; '.join('%s was restructured (%s): %d obligations serving %s can no longer be discharged and need new loop invariants'
                                  % (k, main_b.restructured[k], len(v), prop) for k, v in restructured_hits.items()))
    if main_b.part == 'zorro' and main_b.zorro_gate is False and not failed:
        raise Undecided('the constants declared in src/curve/zorro differ from the ones the primality / group-order certificates in '
                        '/verif/contracts/zorro_cert.json were computed for; the ungated necessary conditions (Fermat tests, generator on curve, '
                        '[r]G = O, cofactor, mul_by_a) all hold, primality and group order of the new constants are not decided')
    known_hits, new = [], {}
    for name, es in failed.items():
        hit = None
        for f in findings:
            if f['property'] != prop:
                continue
            if f['obligation'] == name or name.startswith(f['obligation']):
                ats = ['%s:%s' % (e['repo'][0], e['repo'][1]) if e.get('repo') else '?' for e in es]
                if f['at'] == '*' or all(a == f['at'] for a in ats):
                    hit = f
        if hit:
            known_hits.append((name, hit))
        else:
            new[name] = es
    if selftest:
        return {'failed': sorted(new.keys()), 'known': [n for n, _ in known_hits], 'fn_ok': r1.get('fn_ok', [])}
    # ---- a failed obligation is a violation only if NO solver seed discharges it: one accepted run of the verifier
    #      is a proof (sound), while a single failure may be Z3 giving up (incompleteness / instability) ----
    rescued = {}
    if new and not extra and not os.environ.get('VERIF_NO_RESEED'):   # (the matrix tool skips the re-runs to save time)
        for k in (11, 12):
            try:
                rr = _check(verif, repo, prop, 'quick', seed, use_cache, False, time.time(), selftest=True,
                            extra=('--smt-option', 'smt.random_seed=%d' % k))
            except Undecided:
                continue
            for name in list(new.keys()):
                fnk = new[name][0].get('fn')
                vname = verus_name(fnk)
                oks = [ok for fn, ok in rr['fn_ok'] if fn == vname]
                whole_fn_ok = bool(oks) and all(oks)
                if name not in rr['failed'] and not any(x.startswith(name.split('#')[0] + '#') for x in rr['failed']) and whole_fn_ok:
                    rescued[name] = k
                    del new[name]
            if not new:
                break
        for name, k in rescued.items():
            eprint('note: %s failed under the default Z3 seed but is discharged under seed %d (solver instability, not a violation)' % (name, k))
    for name, f in known_hits:
        print('KNOWN-FINDING: property=%s %s (%s at %s)' % (prop, f['what'], name, f['at']))
    wall = time.time() - t0
    discharged = [o for o in obligations if o not in failed and not any(n.startswith(o) for n in failed)]
    trusted, tcounts = scan_trusted(main_b)
    if any(t['kind'] in ('assume', 'admit') and t['origin'] != 'prelude' for t in trusted):
        raise Undecided('assume()/admit() found in woven repo code or contracts — the check itself is broken')
    ev = make_evidence(verif, main_b, r1, r2, prop, tier, seed, scope, obligations, discharged, failed, known_hits, trusted,
                       tcounts, wall, manifest)
    rc = 0
    if new:
        rc = 1
        os.makedirs(os.path.join(verif, 'replays'), exist_ok=True)
        rp = os.path.join(verif, 'replays', '%s-%s.json' % (prop, r1['sha'][:10]))
        replay = {'property': prop, 'tree_sha': r1['sha'], 'failed_obligations': []}
        for name, es in new.items():
            for e in es:
                replay['failed_obligations'].append({
                    'obligation': name, 'function': e.get('fn'), 'repo_location': '%s:%s' % tuple(e['repo']) if e.get('repo') else None,
                    'clause_text': main_b.clauses[e['clause']].text if e.get('clause') in main_b.clauses else None,
                    'verus_message': e['msg'], 'verus_output': e['rendered']})
        witness = None
        try:
            from . import witness as wmod
            witness = wmod.search(verif, repo, prop, new, tier)
        except Exception as ex:  # the search never decides anything
            eprint('witness search unavailable: %s' % ex)
        replay['witness'] = witness
        replay['replay_cmd'] = './check %s --replay %s' % (prop, os.path.relpath(rp, verif))
        json.dump(replay, open(rp, 'w'), indent=1)
        for name in new:
            eprint('FAILED OBLIGATION %s' % name)
            eprint(new[name][0]['rendered'][:1500])
        tail = '' if witness and witness.get('found') else ' no-failing-input-found'
        print('VIOLATION property=%s replay=%s%s' % (prop, rp, tail))
        ev['violations'] = len(new)
    if tier == 'thorough' and rc == 0:
        rc = thorough_extras(verif, repo, prop, seed, use_cache, ev, r1)
    ev['wall_s'] = round(time.time() - t0, 2)
    if write_evidence:
        os.makedirs(os.path.join(verif, 'evidence'), exist_ok=True)
        json.dump(ev, open(os.path.join(verif, 'evidence', prop + '.json'), 'w'), indent=1)
    if rc == 0:
        print('OK property=%s tier=%s obligations=%d discharged=%d functions=%d verus_wall=%.1fs(cache:%s) canaries=%d/%d' % (
            prop, tier, len(obligations), len(discharged), len(scope), r1['wall_s'], r1['cache'],
            len([k for k in scope if k in failed_canaries]), len([k for k in scope if fn_has_body.get(k)])))
    return rc


def thorough_extras(verif, repo, prop, seed, use_cache, ev, r1):
    """thorough tier = the quick proof, plus (a) the same obligations re-discharged under other Z3 seeds (proof
    stability), (b) a self-test: every seeded property-breaking change kept under seeded/ for this property is applied
    to a scratch copy of the CURRENT tree and must make a named obligation fail, (c) a bounded directed search through
    the public API of the real crate (labelled bounded; never counted as proved)."""
    import shutil
    import tempfile
    cov = ev['coverage']
    rc = 0
    # (a) seeds
    stab = []
    only_supp = bool(os.environ.get('VERIF_SUPPLEMENT_ONLY'))   # developer switch (tools/matrix-style runs on scratch copies): skip (a) and (b)
    for k in (() if only_supp else (1, 2)):
        sd = (seed or 0) * 7 + k
        try:
            r = _check(verif, repo, prop, 'quick', seed, use_cache, False, time.time(), selftest=True,
                       extra=('--smt-option', 'smt.random_seed=%d' % sd))
            stab.append({'z3_random_seed': sd, 'failed_obligations': r['failed']})
        except Undecided as u:
            stab.append({'z3_random_seed': sd, 'undecided': str(u)})
    cov['stability_reruns'] = stab
    unstable = [x for x in stab if x.get('failed_obligations') or x.get('undecided')]
    if unstable:
        eprint('note: obligations of %s not re-discharged under another Z3 seed (proof instability, not a violation): %s' % (prop, unstable))
    # (b) seeded changes
    st = []
    for d in ([] if only_supp else sorted(glob.glob(os.path.join(verif, 'seeded', prop + '*')))):
        patch = os.path.join(d, 'patch.diff')
        if not os.path.exists(patch):
            continue
        try:
            meta = json.load(open(os.path.join(d, 'meta.json')))
        except Exception:
            meta = {}
        scratch = tempfile.mkdtemp(prefix='verif-selftest-')
        try:
            for f in os.listdir(repo):
                if f in ('target', '.git'):
                    continue
                sp = os.path.join(repo, f)
                if os.path.isdir(sp):
                    shutil.copytree(sp, os.path.join(scratch, f))
                else:
                    shutil.copy(sp, scratch)
            p = subprocess.run(['git', 'apply', '--include=src/*', patch], cwd=scratch, capture_output=True, text=True)
            if p.returncode != 0:
                st.append({'change': os.path.basename(d), 'result': 'skipped: patch no longer applies to the current tree'})
                continue
            try:
                r = _check(verif, scratch, prop, 'quick', seed, use_cache, False, time.time(), selftest=True)
                res = 'caught' if r['failed'] else 'MISSED'
                if not r['failed']:
                    # every obligation still discharges on the changed tree: the thorough tier's bounded supplement is the
                    # only part of this check that can still report it
                    try:
                        from . import witness as wmod
                        if prop in wmod.SEARCHABLE:
                            w = wmod.search(verif, scratch, prop, {}, 'quick')
                            if w.get('found'):
                                res = 'caught by the bounded supplement of the thorough tier only (all proof obligations still discharge): %s' % w.get('observed')
                    except Exception:
                        pass
                st.append({'change': os.path.basename(d), 'what': meta.get('summary') or meta.get('what'),
                           'result': res, 'failed_obligations': r['failed'][:8]})
            except Undecided as u:
                res = 'undecided: ' + str(u)
                try:
                    from . import witness as wmod
                    if prop in wmod.SEARCHABLE:
                        w = wmod.search(verif, scratch, prop, {}, 'quick')
                        if w.get('found'):
                            res = 'caught by the bounded stand-in (proof undecided: %s): %s' % (str(u)[:120], w.get('observed'))
                except Exception:
                    pass
                st.append({'change': os.path.basename(d), 'result': res})
        finally:
            shutil.rmtree(scratch, ignore_errors=True)
    cov['seeded_change_selftest'] = st
    for x in st:
        if x['result'] == 'MISSED' or x['result'].startswith('undecided'):
            eprint('SELFTEST-MISS property=%s change=%s: the check does not report this seeded change (%s)' % (prop, x['change'], x['result'][:80]))
    # (c) bounded supplement on the real crate
    try:
        from . import witness as wmod
        if prop in wmod.SEARCHABLE:
            w = wmod.search(verif, repo, prop, {}, 'thorough')
            cov['bounded_supplement'] = {'label': 'bounded (directed search through the public API of the real crate; not counted as proved)',
                                         'explored': w.get('observed'), 'found': w.get('found')}
            if w.get('found'):
                os.makedirs(os.path.join(verif, 'replays'), exist_ok=True)
                rp = os.path.join(verif, 'replays', '%s-%s-bounded.json' % (prop, r1['sha'][:10]))
                json.dump({'property': prop, 'tree_sha': r1['sha'], 'failed_obligations': [
                    {'obligation': 'bounded-supplement', 'repo_location': None, 'verus_output': 'all proof obligations were discharged; the bounded search through the public API found a failing input', 'verus_message': ''}],
                    'witness': w, 'replay_cmd': './check %s --replay %s' % (prop, os.path.relpath(rp, verif))}, open(rp, 'w'), indent=1)
                print('VIOLATION property=%s replay=%s' % (prop, rp))
                ev['violations'] = 1
                rc = 1
    except Exception as ex:
        cov['bounded_supplement'] = {'label': 'bounded', 'explored': 'unavailable: %s' % ex, 'found': False}
    return rc


def make_evidence(verif, b, r1, r2, prop, tier, seed, scope, obligations, discharged, failed, known_hits, trusted, tcounts,
                  wall, manifest):
    fns = []
    for k in scope:
        f = [x for x in b.fns if x['key'] == k]
        if not f:
            continue
        f = f[0]
        fns.append({'function': k, 'repo': 'src/%s:%d-%d' % (f['file'], f['src_line'], f['src_last']),
                    'status': 'failed' if any((e.get('fn') == k) for e in r1['errors']) else 'verified'})
    samples = []
    for cid in obligations[:6]:
        c = b.clauses.get(cid)
        samples.append({'obligation': cid, 'clause': c.text if c else 'implicit: index bounds, arithmetic overflow, unwrap/expect, panic!/assert!, callee preconditions, termination where a decreases is given'})
    rewrites = {}
    for it in b.log.items:
        rewrites[it['rule']] = rewrites.get(it['rule'], 0) + 1
    holes = [it for it in b.log.items if it['rule'].startswith(('R7', 'R8', 'R9'))]
    tb = []
    seen = set()
    for t in trusted:
        s = '%s %s (%s)' % (t['kind'], t['item'], t['where'])
        if s not in seen:
            seen.add(s)
            tb.append(s)
    ev = {
        'property_id': prop, 'tier': tier, 'seed': seed, 'level': 'proof',
        'coverage': {
            'obligations': len(obligations), 'discharged': len(discharged),
            'checker_cmd': r1['cmd'] + '   # on build/run-*/all.rs assembled from /repo/src by vpipe (extract+weave); back end: Z3 bundled with Verus',
            'trusted_base': tb,
            'trusted_base_counts': tcounts,
            'functions_under_contract': fns,
            'samples': samples,
            'failed_obligations': sorted(failed.keys()),
            'known_findings_matched': [n for n, _ in known_hits],
            'verus': r1.get('verus'),
            'solver_smt_ms_whole_file': r1.get('smt_ms'), 'verus_wall_s': r1.get('wall_s'), 'verus_cache': r1.get('cache'),
            'canary_run': {'cmd': r2['cmd'], 'wall_s': r2.get('wall_s'), 'functions_with_failing_canary': len(set(e.get('canary') for e in r2['errors'] if e.get('canary')))},
            'assembled_file_sha256': r1['sha'],
            'extraction_rewrites': rewrites,
            'extraction_holes_R7_R8_R9': ['%s %s:%s' % (h['rule'], h['file'], h['line']) for h in holes],
            'whole_file_summary': r1.get('summary'),
        },
        'assumptions': assumptions_text(prop),
        'wall_s': round(wall, 2), 'violations': 0,
    }
    return ev


def assumptions_text(prop):
    p = os.path.join(os.path.dirname(os.path.dirname(os.path.abspath(__file__))), 'assumptions.json')
    try:
        d = json.load(open(p))
        return d.get('common', []) + d.get(prop, [])
    except Exception:
        return ['see DESIGN.md §7']


def replay(verif, repo, prop, path):
    d = json.load(open(path if os.path.isabs(path) else os.path.join(verif, path)))
    w = d.get('witness')
    if w and w.get('found'):
        from . import witness as wmod
        return wmod.replay(verif, repo, prop, w)
    print('replay file carries no concrete input; failed obligations:')
    for o in d['failed_obligations']:
        print(' -', o['obligation'], '@', o['repo_location'])
        print(o['verus_output'])
    return 1
