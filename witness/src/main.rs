//! verif-witness <property> [--replay '<json input>']
//! Prints one JSON line: {"found": bool, "property": .., "input": .., "observed": ..}
#![allow(non_snake_case)]
use ark_bulletproofs::{r1cs::*, BulletproofGens, PedersenGens};
use ark_ec::{AffineRepr, CurveGroup};
use ark_ff::{One, PrimeField, UniformRand, Zero};
use ark_secq256k1::{Affine, Fr};
use merlin::Transcript;
use rand_chacha::ChaChaRng;
use rand_core::SeedableRng;
use std::panic::{catch_unwind, AssertUnwindSafe};

fn rng(seed: u64) -> ChaChaRng {
    let mut s = [0u8; 32];
    s[..8].copy_from_slice(&seed.to_le_bytes());
    ChaChaRng::from_seed(s)
}

/// circuit with g1 first-phase gates and g2 second-phase gates, all satisfied
fn build<CS: RandomizableConstraintSystem<Fr>>(cs: &mut CS, v: Variable<Fr>, g1: usize, g2: usize) -> Result<(), R1CSError> {
    for _ in 0..g1 {
        let (_, _, o) = cs.multiply(v.into(), v.into());
        cs.constrain(o - o);
    }
    if g2 > 0 {
        cs.specify_randomized_constraints(move |cs| {
            let _z = cs.challenge_scalar(b"z");
            for _ in 0..g2 {
                cs.multiply(v.into(), v.into());
            }
            Ok(())
        })?;
    }
    Ok(())
}

fn prove(g1: usize, g2: usize, cap: usize, seed: u64) -> Result<(R1CSProof<Affine>, Affine), R1CSError> {
    let pc = PedersenGens::<Affine>::default();
    let bp = BulletproofGens::<Affine>::new(cap, 1);
    let mut t = Transcript::new(b"verif-witness");
    let mut p = Prover::new(&pc, &mut t);
    let mut r = rng(seed);
    let (c, var) = p.commit(Fr::from(3u64), Fr::rand(&mut r));
    build(&mut p, var, g1, g2)?;
    let proof = p.prove(&mut r, &bp)?;
    Ok((proof, c))
}

fn verify(proof: &R1CSProof<Affine>, c: Affine, g1: usize, g2: usize, cap: usize) -> Result<(), R1CSError> {
    let pc = PedersenGens::<Affine>::default();
    let bp = BulletproofGens::<Affine>::new(cap, 1);
    let mut t = Transcript::new(b"verif-witness");
    let mut v = Verifier::<Affine, _>::new(&mut t);
    let var = v.commit(c);
    build(&mut v, var, g1, g2)?;
    v.verify(proof, &pc, &bp)
}

fn np2(n: usize) -> usize { if n == 0 { 1 } else { n.next_power_of_two() } }

// ---- C08: hostile (|L|,|R|) shapes through from_bytes + verify / batch_verify ----
fn c08_case(g: usize, l: usize, r: usize) -> Option<String> {
    let (proof, c) = prove(g, 0, 64, 7).ok()?;
    let bytes = proof.to_bytes().ok()?;
    let pt = 33usize; // compressed secq256k1 point
    let sc = 32usize;
    let head = 11 * pt + 3 * sc;
    let k = {
        let mut b = [0u8; 8];
        b.copy_from_slice(&bytes[head..head + 8]);
        u64::from_le_bytes(b) as usize
    };
    let lpts = &bytes[head + 8..head + 8 + k * pt];
    let ab = &bytes[bytes.len() - 2 * sc..];
    let filler = &bytes[..pt]; // A_I1: some valid point
    let mut out = bytes[..head].to_vec();
    for (cnt, _) in [(l, 0), (r, 1)] {
        out.extend_from_slice(&(cnt as u64).to_le_bytes());
        for i in 0..cnt {
            if i < k { out.extend_from_slice(&lpts[i * pt..(i + 1) * pt]); } else { out.extend_from_slice(filler); }
        }
    }
    out.extend_from_slice(ab);
    let hostile = match R1CSProof::<Affine>::from_bytes(&out) { Ok(p) => p, Err(_) => return None };
    let res = catch_unwind(AssertUnwindSafe(|| { let _ = verify(&hostile, c, g, 0, 64); }));
    if res.is_err() { return Some(format!("verify panicked: gates={} |L|={} |R|={}", g, l, r)); }
    let res = catch_unwind(AssertUnwindSafe(|| {
        let pc = PedersenGens::<Affine>::default();
        let bp = BulletproofGens::<Affine>::new(64, 1);
        let mut t1 = Transcript::new(b"verif-witness");
        let mut v1 = Verifier::<Affine, _>::new(&mut t1);
        let var = v1.commit(c);
        let _ = build(&mut v1, var, g, 0);
        let mut r = rng(1);
        let _ = batch_verify(&mut r, vec![(v1, &hostile)], &pc, &bp);
    }));
    if res.is_err() { return Some(format!("batch_verify panicked: gates={} |L|={} |R|={}", g, l, r)); }
    None
}
fn c08(replay: Option<(usize, usize, usize)>) -> (bool, String, String) {
    if let Some((g, l, r)) = replay {
        return match c08_case(g, l, r) { Some(m) => (true, format!("[{},{},{}]", g, l, r), m), None => (false, format!("[{},{},{}]", g, l, r), "no panic".into()) };
    }
    for g in [1usize, 2, 3, 4, 8] {
        for l in 0..6 { for r in 0..6 {
            if let Some(m) = c08_case(g, l, r) { return (true, format!("[{},{},{}]", g, l, r), m); }
        } }
    }
    // byte truncations / garbage must give FormatError, never a panic
    if let Ok((proof, _)) = prove(2, 0, 64, 7) {
        let bytes = proof.to_bytes().unwrap();
        for cut in 0..bytes.len() {
            let res = catch_unwind(AssertUnwindSafe(|| R1CSProof::<Affine>::from_bytes(&bytes[..cut]).is_ok()));
            if res.is_err() { return (true, format!("\"prefix:{}\"", cut), "from_bytes panicked".into()); }
        }
    }
    (false, "null".into(), "grid gates{1,2,3,4,8} x |L|,|R| in 0..6, all prefixes".into())
}

// ---- C07: batches agree with the conjunction of the individual verdicts ----
fn c07() -> (bool, String, String) {
    let pc = PedersenGens::<Affine>::default();
    let bp = BulletproofGens::<Affine>::new(64, 1);
    // (gates, tamper): tamper 0 = honest, 1 = proof of another instance size, 2 = wrong commitment
    let cases: Vec<Vec<(usize, u8)>> = vec![
        vec![(1, 0)], vec![(3, 0)], vec![(5, 0)], vec![(2, 0), (5, 0)], vec![(16, 0), (20, 0), (2, 0)], vec![(3, 0), (5, 0), (16, 0)],
        vec![(4, 1)], vec![(4, 2)], vec![(4, 0), (4, 1)], vec![(4, 1), (4, 0)], vec![(2, 0), (8, 2), (3, 0)], vec![(2, 0), (3, 0), (8, 1)],
    ];
    for (ci, case) in cases.iter().enumerate() {
        let mut proofs = vec![];
        for (g, t) in case.iter() {
            let (pf, c) = match prove(*g, 0, 64, 70 + ci as u64) { Ok(x) => x, Err(e) => return (true, format!("{}", ci), format!("prove failed {:?}", e)) };
            let pf = if *t == 1 { prove(2 * *g + 1, 0, 64, 71).unwrap().0 } else { pf };
            let c = if *t == 2 { pc.commit(Fr::from(4u64), Fr::from(9u64)) } else { c };
            proofs.push((pf, c, *g));
        }
        let singles: Vec<bool> = proofs.iter().map(|(pf, c, g)| verify(pf, *c, *g, 0, 64).is_ok()).collect();
        let all = singles.iter().all(|b| *b);
        let res = catch_unwind(AssertUnwindSafe(|| {
            let mut ts: Vec<Transcript> = proofs.iter().map(|_| Transcript::new(b"verif-witness")).collect();
            let mut vs = vec![];
            for (t, (pf, c, g)) in ts.iter_mut().zip(proofs.iter()) {
                let mut v = Verifier::<Affine, _>::new(t);
                let var = v.commit(*c);
                let _ = build(&mut v, var, *g, 0);
                vs.push((v, pf));
            }
            let mut r = rng(7);
            batch_verify(&mut r, vs, &pc, &bp).is_ok()
        }));
        match res {
            Err(_) => return (true, format!("{}", ci), format!("batch_verify panicked on batch {:?} (gates, tamper)", case)),
            Ok(b) if b != all => return (true, format!("{}", ci), format!("batch {:?} (gates, tamper): batch verdict {} but individual verdicts {:?}", case, b, singles)),
            _ => {}
        }
    }
    (false, "null".into(), "12 batches of 1..3 instances with 1..20 gates (non-powers of two included), honest / wrong-size / wrong-commitment members at every position".into())
}

// ---- C12: aggregated views are party-major prefixes; growth history does not matter; no repeated generator ----
fn c12() -> (bool, String, String) {
    let full = BulletproofGens::<Affine>::new(8, 4);
    // reference: the full-capacity view (8 is the capacity, so it is the plain party-major concatenation of the rows)
    let all_g: Vec<Affine> = full.G(8, 4).cloned().collect();
    let all_h: Vec<Affine> = full.H(8, 4).cloned().collect();
    if all_g.len() != 32 || all_h.len() != 32 { return (true, "[8,4]".into(), "full view has the wrong length".into()); }
    for n in 0..=8usize { for m in 0..=4usize {
        let res = catch_unwind(AssertUnwindSafe(|| {
            let mut want_g = vec![]; let mut want_h = vec![];
            for j in 0..m { for i in 0..n { want_g.push(all_g[j * 8 + i]); want_h.push(all_h[j * 8 + i]); } }
            let got_g: Vec<Affine> = full.G(n, m).cloned().collect();
            let got_h: Vec<Affine> = full.H(n, m).cloned().collect();
            got_g == want_g && got_h == want_h
        }));
        match res { Err(_) => return (true, format!("[{},{}]", n, m), format!("aggregated view G/H({}, {}) panicked", n, m)),
                    Ok(false) => return (true, format!("[{},{}]", n, m), format!("G/H({}, {}) is not the party-major list of the first {} generators of the first {} parties", n, m, n, m)), _ => {} }
    } }
    for steps in [vec![16usize, 32, 64], vec![8, 24, 64], vec![1, 2, 3, 64], vec![64]] {
        let mut g = BulletproofGens::<Affine>::new(steps[0], 2);
        for c in steps.iter().skip(1) { g.increase_capacity(*c); }
        let direct = BulletproofGens::<Affine>::new(64, 2);
        let a: Vec<Affine> = g.G(64, 2).cloned().collect(); let b: Vec<Affine> = direct.G(64, 2).cloned().collect();
        let c: Vec<Affine> = g.H(64, 2).cloned().collect(); let d: Vec<Affine> = direct.H(64, 2).cloned().collect();
        if a != b || c != d { return (true, format!("{:?}", steps), format!("generators after growing through capacities {:?} differ from BulletproofGens::new(64, 2)", steps)); }
        let mut all: Vec<Affine> = a.into_iter().chain(c.into_iter()).collect();
        let total = all.len(); all.sort_by_key(|p| format!("{:?}", p)); all.dedup();
        if all.len() != total || total != 256 { return (true, format!("{:?}", steps), "a generator is repeated or missing".into()); }
    }
    (false, "null".into(), "aggregated views for n in 0..8 x m in 0..4; four growth histories up to capacity 64 against direct construction; distinctness".into())
}

// ---- C11: size law, strict prefixes rejected with FormatError, byte-exact round trip ----
fn c11() -> (bool, String, String) {
    let (pt, sc) = (33usize, 32usize);
    for g in [0usize, 1, 2, 3, 5, 8] {
        let (proof, c) = match prove(g, 0, 64, 11) { Ok(x) => x, Err(e) => return (true, format!("{}", g), format!("prove failed: {:?}", e)) };
        let bytes = match proof.to_bytes() { Ok(b) => b, Err(e) => return (true, format!("{}", g), format!("to_bytes failed: {:?}", e)) };
        let k = np2(g).trailing_zeros() as usize;
        let want = 11 * pt + 5 * sc + 16 + 2 * k * pt;
        if bytes.len() != want { return (true, format!("{}", g), format!("encoded length {} != 11 points + 5 scalars + 16 + 2k points = {} (gates {}, k {})", bytes.len(), want, g, k)); }
        for cut in 0..bytes.len() {
            match R1CSProof::<Affine>::from_bytes(&bytes[..cut]) {
                Ok(_) => return (true, format!("[{},{}]", g, cut), format!("strict prefix of {} out of {} bytes decoded", cut, bytes.len())),
                Err(R1CSError::FormatError) => {}
                Err(e) => return (true, format!("[{},{}]", g, cut), format!("prefix rejected with {:?} instead of FormatError", e)),
            }
        }
        let back = match R1CSProof::<Affine>::from_bytes(&bytes) { Ok(p) => p, Err(e) => return (true, format!("{}", g), format!("own encoding rejected: {:?}", e)) };
        if back.to_bytes().ok() != Some(bytes.clone()) { return (true, format!("{}", g), "decode + re-encode changed the bytes".into()); }
        if proof.to_bytes().ok() != Some(bytes.clone()) { return (true, format!("{}", g), "encoding is not deterministic".into()); }
        if verify(&back, c, g, 0, 64).is_ok() != verify(&proof, c, g, 0, 64).is_ok() { return (true, format!("{}", g), "verdict changed across the round trip".into()); }
    }
    (false, "null".into(), "gates {0,1,2,3,5,8}: size law, every strict prefix, round trip, verdict".into())
}


// ---- C05: a proof made for one statement / context, checked against neighbouring statements ----
fn c05_circuit<CS: ConstraintSystem<Fr>>(cs: &mut CS, vars: &[Variable<Fr>], a: usize, b: usize, c: u64) {
    let (_, _, o) = cs.multiply(vars[a].into(), vars[b].into());
    cs.constrain(o - Fr::from(c));
}
fn c05(replay: Option<usize>) -> (bool, String, String) {
    let pc = PedersenGens::<Affine>::default();
    let bp = BulletproofGens::<Affine>::new(8, 1);
    let mut r = rng(5);
    let (b0, b1) = (Fr::rand(&mut r), Fr::rand(&mut r));
    let (V0, V1) = (pc.commit(Fr::from(3u64), b0), pc.commit(Fr::from(5u64), b1));
    let proof = {
        let mut t = Transcript::new(b"ctx-A");
        let mut p = Prover::new(&pc, &mut t);
        let (_, x) = p.commit(Fr::from(3u64), b0);
        let (_, y) = p.commit(Fr::from(5u64), b1);
        c05_circuit(&mut p, &[x, y], 0, 1, 15);
        match p.prove(&mut r, &bp) { Ok(p) => p, Err(_) => return (false, "null".into(), "honest proving failed (not a C05 matter)".into()) }
    };
    let Vx = pc.commit(Fr::from(5u64), Fr::rand(&mut r));
    let pc2 = PedersenGens::<Affine> { B: pc.B_blinding, B_blinding: pc.B };
    // (description, label, extra prefix message, commitments, wiring a, b, constant, swapped bases)
    let cases: Vec<(&str, &'static [u8], bool, Vec<Affine>, usize, usize, u64, bool)> = vec![
        ("the prover's own statement (must be accepted)", b"ctx-A", false, vec![V0, V1], 0, 1, 15, false),
        ("different transcript label", b"ctx-B", false, vec![V0, V1], 0, 1, 15, false),
        ("extra message absorbed before the verifier was created", b"ctx-A", true, vec![V0, V1], 0, 1, 15, false),
        ("commitment list [V0,V0,V1], circuit on entries 0 and 2", b"ctx-A", false, vec![V0, V0, V1], 0, 2, 15, false),
        ("commitment list [V0,V1,V0,V1], circuit on entries 0 and 3", b"ctx-A", false, vec![V0, V1, V0, V1], 0, 3, 15, false),
        ("commitment list [V0,V1,V1] (one repeated commitment appended)", b"ctx-A", false, vec![V0, V1, V1], 0, 1, 15, false),
        ("commitment list [V0,V1,V'] (one fresh commitment appended)", b"ctx-A", false, vec![V0, V1, Vx], 0, 1, 15, false),
        ("commitment list [V1,V0], circuit on entries 1 and 0", b"ctx-A", false, vec![V1, V0], 1, 0, 15, false),
        ("second commitment replaced by another commitment to the same value", b"ctx-A", false, vec![V0, Vx], 0, 1, 15, false),
        ("commitment list [V0] only, circuit squares it", b"ctx-A", false, vec![V0], 0, 0, 15, false),
        ("public constant 16 instead of 15", b"ctx-A", false, vec![V0, V1], 0, 1, 16, false),
        ("Pedersen bases swapped", b"ctx-A", false, vec![V0, V1], 0, 1, 15, true),
    ];
    for (i, (what, label, prefix, vs, a, b, c, swapped)) in cases.iter().enumerate() {
        if let Some(k) = replay { if k != i { continue; } }
        let mut t = Transcript::new(label);
        if *prefix { t.append_message(b"note", b"x"); }
        let mut v = Verifier::<Affine, _>::new(&mut t);
        let vars: Vec<Variable<Fr>> = vs.iter().map(|V| v.commit(*V)).collect();
        c05_circuit(&mut v, &vars, *a, *b, *c);
        let ok = v.verify(&proof, if *swapped { &pc2 } else { &pc }, &bp).is_ok();
        if i == 0 && !ok { return (false, "null".into(), "the honest proof is rejected for its own statement (not a C05 matter)".into()); }
        if i > 0 && ok { return (true, format!("{}", i), format!("a proof for commitments [V0,V1], circuit v0*v1 = 15, label ctx-A is ACCEPTED for a different statement: {}", what)); }
    }
    (false, "null".into(), "one honest proof against 11 neighbouring statements (label, prefix, repeated / appended / permuted / replaced / dropped commitments, constant, bases): all rejected".into())
}

// ---- C13 ----
fn c13() -> (bool, String, String) {
    let dflt = PedersenGens::<Affine>::default();
    let mut r = rng(13);
    // default bases and bases where B is not the group generator
    for pc in [dflt, PedersenGens::<Affine> { B: (dflt.B.mul_bigint(Fr::from(7u64).into_bigint()) + dflt.B_blinding.mul_bigint(Fr::from(11u64).into_bigint())).into_affine(), B_blinding: dflt.B_blinding }] {
    let big = Fr::from(u64::MAX) * Fr::from(u64::MAX) + Fr::one();
    let mut vals = vec![Fr::zero(), Fr::one(), -Fr::one(), big, Fr::rand(&mut r), Fr::rand(&mut r)];
    // every zero / non-zero pattern of the four 64-bit limbs (2^64, 2^128 + 5, 2^192 + 7*2^64, ...): representations with
    // holes are where limb-wise shortcuts go wrong
    let two64 = Fr::from(u64::MAX) + Fr::one();
    for mask in 1u32..16 {
        let mut v = Fr::zero(); let mut w = Fr::one();
        for i in 0..4 { if mask >> i & 1 == 1 { v += w * Fr::from(5u64 + 2 * i as u64); } w *= two64; }
        vals.push(v);
    }
    for (i, v) in vals.iter().enumerate() { for (j, b) in vals.iter().enumerate() {
        let want = (pc.B.mul_bigint(v.into_bigint()) + pc.B_blinding.mul_bigint(b.into_bigint())).into_affine();
        if pc.commit(*v, *b) != want { return (true, format!("[{},{}]", i, j), "commit(v,r) != v*B + r*B~ (indices into [0,1,-1,2^128-ish,rand,rand, then the 15 limb patterns sum_{i in mask} (5+2i)*2^(64i), mask = index-5])".into()); }
        let mut t = Transcript::new(b"x");
        let mut p = Prover::new(&pc, &mut t);
        let (c, _) = p.commit(*v, *b);
        if c != want { return (true, format!("[{},{}]", i, j), "Prover::commit returned a different point".into()); }
    } }
    }
    (false, "null".into(), "441 (v,r) pairs incl. 0, 1, -1, > 2^64 and all 15 zero/non-zero patterns of the four 64-bit limbs, for the default bases and for B = 7G + 11B~".into())
}

// ---- C15: random expression trees ----
#[derive(Clone, Debug)]
enum E { Collect(Vec<(usize, i64)>, bool), Zero, Var(usize), Const(i64), Add(Box<E>, Box<E>), Sub(Box<E>, Box<E>), Neg(Box<E>), Mul(Box<E>, i64) }
fn gen(r: &mut ChaChaRng, d: u32) -> E {
    use rand_core::RngCore;
    let k = r.next_u32() % if d == 0 { 4 } else { 9 };
    match k {
        0 => E::Var((r.next_u32() % 3) as usize),
        2 if d == 0 => E::Zero,
        3 if d == 0 => { let n = 2 + r.next_u32() % 4; E::Collect((0..n).map(|_| ((r.next_u32() % 4) as usize, (r.next_u32() % 7) as i64 - 3)).collect(), r.next_u32() % 2 == 0) }
        8 => { let n = 2 + r.next_u32() % 4; E::Collect((0..n).map(|_| ((r.next_u32() % 4) as usize, (r.next_u32() % 7) as i64 - 3)).collect(), r.next_u32() % 2 == 0) }
        7 => E::Sub(Box::new(E::Zero), Box::new(gen(r, d - 1))),
        1 => E::Const((r.next_u32() % 7) as i64 - 3),
        2 => E::Add(Box::new(gen(r, d - 1)), Box::new(gen(r, d - 1))),
        3 => E::Sub(Box::new(gen(r, d - 1)), Box::new(gen(r, d - 1))),
        4 => E::Neg(Box::new(gen(r, d - 1))),
        5 => E::Mul(Box::new(gen(r, d - 1)), (r.next_u32() % 5) as i64 - 2),
        _ => E::Sub(Box::new(E::Var(0)), Box::new(gen(r, d - 1))),
    }
}
fn fr(i: i64) -> Fr { if i >= 0 { Fr::from(i as u64) } else { -Fr::from((-i) as u64) } }
fn eval(e: &E, x: &[Fr]) -> Fr { match e { E::Collect(ts, _) => ts.iter().map(|(i, c)| (if *i == 3 { Fr::one() } else { x[*i] }) * fr(*c)).sum(), E::Zero => Fr::zero(), E::Var(i) => x[*i], E::Const(c) => fr(*c), E::Add(a, b) => eval(a, x) + eval(b, x), E::Sub(a, b) => eval(a, x) - eval(b, x), E::Neg(a) => -eval(a, x), E::Mul(a, k) => eval(a, x) * fr(*k) } }
fn lc(e: &E, v: &[Variable<Fr>]) -> LinearCombination<Fr> { match e {
    E::Collect(ts, owned) => { let l: Vec<(Variable<Fr>, Fr)> = ts.iter().map(|(i, c)| (if *i == 3 { Variable::One() } else { v[*i] }, fr(*c))).collect();
        if *owned { l.into_iter().collect() } else { l.iter().collect() } },
    E::Zero => LinearCombination::default(), E::Var(i) => v[*i].into(), E::Const(c) => fr(*c).into(),
    // a bare variable on the left uses the Variable-level operators
    E::Add(a, b) => match &**a { E::Var(i) => v[*i] + lc(b, v), _ => lc(a, v) + lc(b, v) },
    E::Sub(a, b) => match &**a { E::Var(i) => v[*i] - lc(b, v), _ => lc(a, v) - lc(b, v) },
    E::Neg(a) => match &**a { E::Var(i) => -v[*i], _ => -lc(a, v) },
    E::Mul(a, k) => match &**a { E::Var(i) => v[*i] * fr(*k), _ => lc(a, v) * fr(*k) } } }
fn c15_case(seed: u64) -> Option<String> {
    let mut r = rng(seed);
    let e = gen(&mut r, 3);
    let xs = [Fr::from(5u64), -Fr::from(2u64), Fr::rand(&mut r)];
    let pc = PedersenGens::<Affine>::default();
    let bp = BulletproofGens::<Affine>::new(8, 1);
    for delta in [Fr::zero(), Fr::one()] {
        let c = eval(&e, &xs) + delta;
        let mut t = Transcript::new(b"c15");
        let mut p = Prover::new(&pc, &mut t);
        let mut cm = vec![]; let mut vs = vec![];
        for x in xs.iter() { let (cc, v) = p.commit(*x, Fr::rand(&mut r)); cm.push(cc); vs.push(v); }
        p.multiply(vs[0].into(), vs[1].into());
        p.constrain(lc(&e, &vs) - c);
        let proof = match p.prove(&mut r, &bp) { Ok(p) => p, Err(_) => return Some(format!("prove failed for {:?}", e)) };
        let mut t = Transcript::new(b"c15");
        let mut v = Verifier::<Affine, _>::new(&mut t);
        let vs: Vec<_> = cm.iter().map(|c| v.commit(*c)).collect();
        v.multiply(vs[0].into(), vs[1].into());
        v.constrain(lc(&e, &vs) - c);
        let ok = v.verify(&proof, &pc, &bp).is_ok();
        if ok != delta.is_zero() { return Some(format!("expr {:?}: c = value + {} => verified = {}", e, if delta.is_zero() { 0 } else { 1 }, ok)); }
    }
    None
}
fn c15(replay: Option<u64>) -> (bool, String, String) {
    if let Some(s) = replay { return match c15_case(s) { Some(m) => (true, s.to_string(), m), None => (false, s.to_string(), "ok".into()) }; }
    for s in 0..300u64 { if let Some(m) = c15_case(s) { return (true, s.to_string(), m); } }
    (false, "null".into(), "300 random expression trees (depth <= 3, incl. empty combinations and collected term lists with repeated variables), true and false constants".into())
}

// ---- C16: call sequences ----
fn c16_case(code: u64, len: u32) -> Option<String> {
    // ops: 0 commit, 1 allocate, 2 allocate_multiplier, 3 multiply, 4 constrain, 5 phase switch (once)
    let pc = PedersenGens::<Affine>::default();
    let bp = BulletproofGens::<Affine>::new(32, 1);
    let mut ops = vec![]; let mut c = code; for _ in 0..len { ops.push((c % 6) as u8); c /= 6; }
    let split = ops.iter().position(|o| *o == 5).unwrap_or(ops.len());
    let ph1: Vec<u8> = ops[..split].iter().cloned().filter(|o| *o != 5).collect();
    let ph2: Vec<u8> = ops[split..].iter().cloned().filter(|o| *o != 5 && *o != 0).collect();
    fn run<CS: ConstraintSystem<Fr>>(cs: &mut CS, ops: &[u8], log: &mut Vec<String>) {
        for o in ops { match o {
            1 => log.push(format!("{:?}", cs.allocate(Some(Fr::from(2u64))).ok())),
            2 => log.push(format!("{:?}", cs.allocate_multiplier(Some((Fr::from(2u64), Fr::from(3u64)))).ok())),
            3 => log.push(format!("{:?}", cs.multiply(Fr::from(2u64).into(), Fr::from(3u64).into()))),
            4 => cs.constrain(LinearCombination::default()),
            _ => {}
        } log.push(format!("len={}", cs.multipliers_len())); }
    }
    let plog = std::rc::Rc::new(std::cell::RefCell::new(vec![]));
    let vlog = std::rc::Rc::new(std::cell::RefCell::new(vec![]));
    let mut tp = Transcript::new(b"c16"); let mut tv = Transcript::new(b"c16");
    let mut p = Prover::new(&pc, &mut tp); let mut v = Verifier::<Affine, _>::new(&mut tv);
    let mut r = rng(16);
    for o in ph1.iter() { if *o == 0 { let (c, var) = p.commit(Fr::from(9u64), Fr::rand(&mut r)); plog.borrow_mut().push(format!("{:?}", var)); vlog.borrow_mut().push(format!("{:?}", v.commit(c))); } }
    { let mut l = plog.borrow_mut(); run(&mut p, &ph1, &mut l); } { let mut l = vlog.borrow_mut(); run(&mut v, &ph1, &mut l); }
    if ops.contains(&5) {
        let (a, b) = (ph2.clone(), ph2.clone()); let (pl, vl) = (plog.clone(), vlog.clone());
        let _ = p.specify_randomized_constraints(move |cs| { let mut l = pl.borrow_mut(); run(cs, &a, &mut l); Ok(()) });
        let _ = v.specify_randomized_constraints(move |cs| { let mut l = vl.borrow_mut(); run(cs, &b, &mut l); Ok(()) });
    }
    let proof = p.prove(&mut r, &bp);
    let ok = match proof { Ok(pf) => v.verify(&pf, &pc, &bp).is_ok(), Err(e) => return Some(format!("ops {:?}: prove failed {:?}", ops, e)) };
    if *plog.borrow() != *vlog.borrow() { return Some(format!("ops {:?}: prover log {:?} != verifier log {:?}", ops, plog.borrow(), vlog.borrow())); }
    if !ok { return Some(format!("ops {:?}: honest proof rejected", ops)); }
    None
}
fn c16(replay: Option<(u64, u32)>) -> (bool, String, String) {
    if let Some((c, l)) = replay { return match c16_case(c, l) { Some(m) => (true, format!("[{},{}]", c, l), m), None => (false, format!("[{},{}]", c, l), "ok".into()) }; }
    let maxlen: u32 = std::env::var("VERIF_WITNESS_DEPTH").ok().and_then(|s| s.parse().ok()).unwrap_or(4);
    for len in 1..=maxlen { for code in 0..6u64.pow(len) { if let Some(m) = c16_case(code, len) { return (true, format!("[{},{}]", code, len), m); } } }
    (false, "null".into(), format!("all call sequences up to length {} over commit, allocate, allocate_multiplier, multiply, constrain, phase switch", maxlen))
}

// ---- C17 ----
fn c17_case(g1: usize, g2: usize, pcap: usize, vcap: usize) -> Option<String> {
    let thr = np2(g1 + g2);
    let pr = catch_unwind(AssertUnwindSafe(|| prove(g1, g2, pcap, 17)));
    let pr = match pr { Err(_) => return Some(format!("prove panicked g1={} g2={} cap={}", g1, g2, pcap)), Ok(x) => x };
    match (&pr, pcap >= thr) {
        (Ok(_), false) => return Some(format!("prove succeeded below threshold g1={} g2={} cap={}", g1, g2, pcap)),
        (Err(R1CSError::InvalidGeneratorsLength), false) => {}
        (Err(e), false) => return Some(format!("wrong error {:?} g1={} g2={} cap={}", e, g1, g2, pcap)),
        (Err(e), true) => return Some(format!("prove failed {:?} at/above threshold g1={} g2={} cap={}", e, g1, g2, pcap)),
        _ => {}
    }
    if let Ok((proof, c)) = prove(g1, g2, 64, 17) {
        let vr = catch_unwind(AssertUnwindSafe(|| verify(&proof, c, g1, g2, vcap)));
        match vr { Err(_) => return Some(format!("verify panicked g1={} g2={} cap={}", g1, g2, vcap)),
            Ok(Ok(())) if vcap < thr => return Some(format!("verify accepted below threshold g1={} g2={} cap={}", g1, g2, vcap)),
            Ok(Err(R1CSError::InvalidGeneratorsLength)) if vcap >= thr => return Some(format!("verify insufficient-generators at/above threshold g1={} g2={} cap={}", g1, g2, vcap)),
            Ok(Err(e)) if vcap >= thr => return Some(format!("verify rejected {:?} at/above threshold g1={} g2={} cap={}", e, g1, g2, vcap)),
            Ok(Err(R1CSError::InvalidGeneratorsLength)) => {}
            Ok(Err(e)) => return Some(format!("verify wrong error {:?} below threshold g1={} g2={} cap={}", e, g1, g2, vcap)),
            _ => {} }
        if let (Ok((p2, _)), true) = (&pr, pcap >= thr) { if p2.to_bytes().ok() != proof.to_bytes().ok() { return Some(format!("proof depends on surplus capacity g1={} g2={} cap={} vs 64", g1, g2, pcap)); } }
    }
    None
}
fn c17(replay: Option<(usize, usize, usize, usize)>) -> (bool, String, String) {
    if let Some((a, b, c, d)) = replay { return match c17_case(a, b, c, d) { Some(m) => (true, format!("[{},{},{},{}]", a, b, c, d), m), None => (false, format!("[{},{},{},{}]", a, b, c, d), "ok".into()) }; }
    for g1 in 0..=4 { for g2 in 0..=3 { for cap in [0usize, 1, 2, 3, 4, 5, 7, 8, 16] {
        if let Some(m) = c17_case(g1, g2, cap, cap) { return (true, format!("[{},{},{},{}]", g1, g2, cap, cap), m); }
    } } }
    (false, "null".into(), "grid g1 0..4 x g2 0..3 x capacity {0,1,2,3,4,5,7,8,16}".into())
}

// ---- C01 / C02: small mixed-phase circuits; honest proofs verify, violated constraints are rejected ----
/// k1 first-phase gates a_i*b_i with constraint o_i - c_i = 0 (c_i committed), k2 second-phase gates p_j*q_j (unconstrained),
/// `alloc`: first-phase gates are built with allocate()/allocate() + a copy constraint instead of multiply()
fn mixed_case(k1: usize, k2: usize, alloc: u8, viol: Option<(usize, i64, usize)>, cap: usize) -> Result<bool, String> {
    let pc = PedersenGens::<Affine>::default();
    let bp = BulletproofGens::<Affine>::new(cap, 1);
    let a: Vec<Fr> = (0..k1).map(|i| Fr::from(3 + i as u64)).collect();
    let b: Vec<Fr> = (0..k1).map(|i| Fr::from(5 + 2 * i as u64)).collect();
    let pq: Vec<(Fr, Fr)> = (0..k2).map(|j| (Fr::from(2 + j as u64), Fr::from(3 + j as u64))).collect();
    let mut outs: Vec<Fr> = a.iter().zip(b.iter()).map(|(x, y)| *x * y).collect();
    outs.extend(pq.iter().map(|(p, q)| *p * q));
    let mut c: Vec<Fr> = (0..k1).map(|i| a[i] * b[i]).collect();
    if let Some((i, sign, j)) = viol {
        let delta = if j == usize::MAX { Fr::one() } else { outs[j] };
        c[i] = if sign >= 0 { c[i] + delta } else { c[i] - delta };
    }
    fn circuit<CS: RandomizableConstraintSystem<Fr>>(cs: &mut CS, av: &[Variable<Fr>], bv: &[Variable<Fr>], cv: &[Variable<Fr>], pv: Vec<(Variable<Fr>, Variable<Fr>)>,
            alloc: u8, vals: Option<(Vec<Fr>, Vec<Fr>)>) -> Result<(), R1CSError> {
        for i in 0..av.len() {
            let o = if alloc == 3 {
                // a single allocation left open across a full gate: allocate(l); multiply(..); allocate(r)
                let l = cs.allocate(vals.as_ref().map(|v| v.0[i]))?;
                let (_, _, o) = cs.multiply(av[i].into(), bv[i].into());
                let r = cs.allocate(vals.as_ref().map(|v| v.1[i]))?;
                cs.constrain(l - av[i]); cs.constrain(r - bv[i]);
                o
            } else if alloc >= 1 && alloc <= 2 {
                let l = cs.allocate(vals.as_ref().map(|v| v.0[i]))?;
                let r = cs.allocate(vals.as_ref().map(|v| v.1[i]))?;
                cs.constrain(l - av[i]); cs.constrain(r - bv[i]);
                // output of the gate the two allocations share
                let (_, _, o) = cs.multiply(l.into(), r.into());
                o
            } else { cs.multiply(av[i].into(), bv[i].into()).2 };
            cs.constrain(o - cv[i]);
        }
        if alloc == 2 {
            // an odd number of single allocations: one multiplier stays half-assigned when the first phase closes
            let l = cs.allocate(vals.as_ref().map(|_| Fr::from(7u64)))?;
            cs.constrain(l - Fr::from(7u64));
        }
        if alloc == 4 {
            // one single allocation in each phase: the phase switch must close the half-open gate
            let l = cs.allocate(vals.as_ref().map(|_| Fr::from(7u64)))?;
            cs.constrain(l - Fr::from(7u64));
            let with_val = vals.is_some();
            cs.specify_randomized_constraints(move |cs| {
                let _ = cs.challenge_scalar(b"z");
                let r = cs.allocate(if with_val { Some(Fr::from(9u64)) } else { None })?;
                cs.constrain(r - Fr::from(9u64));
                for (p, q) in pv.iter() { cs.multiply((*p).into(), (*q).into()); }
                Ok(())
            })?;
        } else if alloc == 5 {
            // a randomized phase WITHOUT second-phase multipliers: only a challenge-weighted linear constraint (the honest
            // second-phase commitments are then the identity), preceded by an empty linear constraint
            cs.constrain(LinearCombination::default());
            let (a0, c0) = (av.first().cloned(), cv.first().cloned());
            cs.specify_randomized_constraints(move |cs| {
                let z = cs.challenge_scalar(b"z");
                if let (Some(a0), Some(c0)) = (a0, c0) { cs.constrain((a0 - Fr::from(3u64)) * z + (c0 - c0)); }   // a_0 = 3
                Ok(())
            })?;
        } else if !pv.is_empty() {
            cs.specify_randomized_constraints(move |cs| { let _ = cs.challenge_scalar(b"z"); for (p, q) in pv.iter() { cs.multiply((*p).into(), (*q).into()); } Ok(()) })?;
        }
        Ok(())
    }
    let mut r = rng(2);
    let mut tp = Transcript::new(b"mixed");
    let mut p = Prover::new(&pc, &mut tp);
    let mut coms = vec![];
    let mut commit = |p: &mut Prover<Affine, &mut Transcript>, v: Fr, coms: &mut Vec<Affine>| { let (cm, var) = p.commit(v, Fr::rand(&mut r)); coms.push(cm); var };
    let av: Vec<_> = a.iter().map(|v| commit(&mut p, *v, &mut coms)).collect();
    let bv: Vec<_> = b.iter().map(|v| commit(&mut p, *v, &mut coms)).collect();
    let cv: Vec<_> = c.iter().map(|v| commit(&mut p, *v, &mut coms)).collect();
    let pv: Vec<_> = pq.iter().map(|(x, y)| (commit(&mut p, *x, &mut coms), commit(&mut p, *y, &mut coms))).collect();
    circuit(&mut p, &av, &bv, &cv, pv, alloc, Some((a.clone(), b.clone()))).map_err(|e| format!("prover circuit: {:?}", e))?;
    let mut r2 = rng(3);
    let proof = match p.prove(&mut r2, &bp) { Ok(pf) => pf, Err(e) => return Err(format!("prove failed: {:?}", e)) };
    let mut tv = Transcript::new(b"mixed");
    let mut v = Verifier::<Affine, _>::new(&mut tv);
    let mut it = coms.iter();
    let av: Vec<_> = (0..k1).map(|_| v.commit(*it.next().unwrap())).collect();
    let bv: Vec<_> = (0..k1).map(|_| v.commit(*it.next().unwrap())).collect();
    let cv: Vec<_> = (0..k1).map(|_| v.commit(*it.next().unwrap())).collect();
    let pv: Vec<_> = (0..k2).map(|_| (v.commit(*it.next().unwrap()), v.commit(*it.next().unwrap()))).collect();
    circuit(&mut v, &av, &bv, &cv, pv, alloc, None).map_err(|e| format!("verifier circuit: {:?}", e))?;
    Ok(v.verify(&proof, &pc, &bp).is_ok())
}
fn c01(replay: Option<(usize, usize, usize)>) -> (bool, String, String) {
    let run = |k1: usize, k2: usize, al: usize| -> Option<String> {
        match catch_unwind(AssertUnwindSafe(|| mixed_case(k1, k2, al as u8, None, 32))) {
            Err(_) => Some(format!("panic while proving/verifying an honest circuit k1={} k2={} allocate={}", k1, k2, al)),
            Ok(Err(e)) => Some(format!("honest circuit k1={} k2={} allocate={}: {}", k1, k2, al, e)),
            Ok(Ok(false)) => Some(format!("honest proof of a satisfied circuit rejected: k1={} first-phase gates, k2={} second-phase gates, allocate={}", k1, k2, al)),
            Ok(Ok(true)) => None } };
    if let Some((a, b, c)) = replay { return match run(a, b, c) { Some(m) => (true, format!("[{},{},{}]", a, b, c), m), None => (false, format!("[{},{},{}]", a, b, c), "ok".into()) }; }
    for k1 in 0..=4 { for k2 in 0..=3 { for al in 0..=5 { if let Some(m) = run(k1, k2, al) { return (true, format!("[{},{},{}]", k1, k2, al), m); } } } }
    (false, "null".into(), "honest proofs for k1 in 0..4 first-phase x k2 in 0..3 second-phase gates, multiply, allocate-pair, odd-allocate, interleaved-allocate, allocate-in-both-phases and randomized-phase-without-multipliers (+ empty constraint) styles".into())
}
fn c02(replay: Option<(usize, usize, usize, usize, usize)>) -> (bool, String, String) {
    let run = |k1: usize, k2: usize, i: usize, sg: usize, j: usize| -> Option<String> {
        let jj = if j == 99 { usize::MAX } else { j };
        match catch_unwind(AssertUnwindSafe(|| mixed_case(k1, k2, 0, Some((i, if sg == 1 { 1 } else { -1 }, jj)), 32))) {
            Ok(Ok(true)) => Some(format!("violated constraint ACCEPTED: k1={} k2={}: c_{} is off by {}{}", k1, k2, i, if sg == 1 { "+" } else { "-" }, if j == 99 { "1".to_string() } else { format!("output of gate {}", j) })),
            _ => None } };
    if let Some((a, b, c, d, e)) = replay { return match run(a, b, c, d, e) { Some(m) => (true, format!("[{},{},{},{},{}]", a, b, c, d, e), m), None => (false, format!("[{},{},{},{},{}]", a, b, c, d, e), "rejected".into()) }; }
    for k1 in 1..=3 { for k2 in 0..=2 { for i in 0..k1 { for sg in 0..=1 { for j in (0..k1 + k2).chain(std::iter::once(99)) {
        if j == i { continue; }
        if let Some(m) = run(k1, k2, i, sg, j) { return (true, format!("[{},{},{},{},{}]", k1, k2, i, sg, j), m); }
    } } } } }
    (false, "null".into(), "constraint o_i = c_i violated by +-1 and by +- every other gate output, k1 in 1..3 x k2 in 0..2".into())
}

// ---- C14: zorro constants and mul_by_a on the real types ----
fn c14() -> (bool, String, String) {
    use ark_bulletproofs::curve::zorro::{Fq, Fr as ZFr, G1Affine, Parameters};
    use ark_ec::short_weierstrass::SWCurveConfig;
    let mut r = rng(14);
    let mut xs = vec![Fq::zero(), Fq::one(), -Fq::one(), Fq::from(2u64), Fq::from(u64::MAX)];
    for _ in 0..64 { xs.push(Fq::rand(&mut r)); }
    for (i, x) in xs.iter().enumerate() {
        if <Parameters as SWCurveConfig>::mul_by_a(*x) != <Parameters as SWCurveConfig>::COEFF_A * x {
            return (true, format!("{}", i), format!("mul_by_a(x) != COEFF_A * x for sample #{} (0, 1, -1, 2, 2^64-1, then ChaCha(seed 14) elements)", i));
        }
    }
    let g = G1Affine::generator();
    if !g.is_on_curve() { return (true, "\"generator\"".into(), "declared generator is not on the declared curve".into()); }
    if !g.mul_bigint(ZFr::MODULUS).is_zero() { return (true, "\"order\"".into(), "[r]G != O for r = modulus of the declared scalar field".into()); }
    (false, "null".into(), "mul_by_a on 69 field elements; generator on curve; [r]G = O".into())
}

fn nums(s: &str) -> Vec<u64> { s.split(|c: char| !c.is_ascii_digit()).filter(|x| !x.is_empty()).map(|x| x.parse().unwrap()).collect() }

fn main() {
    std::panic::set_hook(Box::new(|_| {}));
    let args: Vec<String> = std::env::args().collect();
    let prop = args.get(1).cloned().unwrap_or_default();
    let rep = if args.get(2).map(|s| s.as_str()) == Some("--replay") { args.get(3).map(|s| nums(s)) } else { None };
    let (found, input, observed) = match prop.as_str() {
        "C01" => c01(rep.filter(|v| v.len() == 3).map(|v| (v[0] as usize, v[1] as usize, v[2] as usize))),
        "C02" => c02(rep.filter(|v| v.len() == 5).map(|v| (v[0] as usize, v[1] as usize, v[2] as usize, v[3] as usize, v[4] as usize))),
        // C03 (verdict == the unbatched relations): an honest proof satisfies the relations, a violated constraint falsifies
        // them, so both grids are also refutations of C03; replay inputs are told apart by their length
        "C03" => match rep.as_ref().map(|v| v.len()) {
            Some(3) => c01(rep.map(|v| (v[0] as usize, v[1] as usize, v[2] as usize))),
            Some(5) => c02(rep.map(|v| (v[0] as usize, v[1] as usize, v[2] as usize, v[3] as usize, v[4] as usize))),
            _ => { let a = c01(None); if a.0 { a } else { let b = c02(None); if b.0 { b } else { (false, "null".into(), format!("{}; {}", a.2, b.2)) } } }
        },
        "C05" => c05(rep.and_then(|v| v.first().map(|x| *x as usize))),
        "C07" => c07(),
        "C12" => c12(),
        "C08" => c08(rep.filter(|v| v.len() == 3).map(|v| (v[0] as usize, v[1] as usize, v[2] as usize))),
        "C11" => c11(),
        "C13" => c13(),
        "C15" => c15(rep.and_then(|v| v.first().cloned())),
        "C16" => c16(rep.filter(|v| v.len() == 2).map(|v| (v[0], v[1] as u32))),
        "C14" => c14(),
        "C17" => c17(rep.filter(|v| v.len() == 4).map(|v| (v[0] as usize, v[1] as usize, v[2] as usize, v[3] as usize))),
        _ => (false, "null".into(), "no directed search for this property".into()),
    };
    println!("{{\"found\": {}, \"property\": \"{}\", \"input\": {}, \"observed\": {:?}}}", found, prop, input, observed);
}
