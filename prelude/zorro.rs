// ---------------------------------------------------------------------------------------------
// A15  stand-in for the zorro base field `Fq = Fp256<MontBackend<FqConfig, 4>>` (ark-ff): a value in [0, p) with
//      + and * computed modulo the modulus DECLARED in src/curve/zorro/fq.rs (`zorro_fq_modulus()`, extracted from the
//      `#[modulus = ".."]` attribute on every run).  Assumed: the MontConfig derive implements exactly this arithmetic,
//      and `MontFp!("N")` denotes N mod p.
// ---------------------------------------------------------------------------------------------
/// 256-bit natural number from four 64-bit limbs (least significant first)
pub open spec fn l4(a: nat, b: nat, c: nat, d: nat) -> nat {
    a + 0x1_0000_0000_0000_0000nat * (b + 0x1_0000_0000_0000_0000nat * (c + 0x1_0000_0000_0000_0000nat * d))
}
pub trait ZField: Sized + Copy + Add<Self, Output = Self> + for<'a> Add<&'a Self, Output = Self>
    + Mul<Self, Output = Self> + for<'a> Mul<&'a Self, Output = Self> {
    spec fn v(&self) -> nat;
    spec fn of(n: nat) -> Self;
    fn double(&self) -> (r: Self) ensures r == Self::of(2 * self.v());
    fn square(&self) -> (r: Self) ensures r == Self::of(self.v() * self.v());
}
pub broadcast axiom fn zax_of<F: ZField>(n: nat) ensures (#[trigger] F::of(n)).v() == n % zorro_fq_modulus();
pub broadcast axiom fn zax_range<F: ZField>(x: F) ensures #[trigger] x.v() < zorro_fq_modulus();
// addition: value/value, value/ref, ref/ref, ref/value — each fact with its own trigger
pub broadcast axiom fn zax_add_vv<F: ZField>(a: F, b: F) ensures #[trigger] <F as vstd::std_specs::ops::AddSpec<F>>::add_spec(a, b) == F::of(a.v() + b.v());
pub broadcast axiom fn zax_add_vr<F: ZField>(a: F, b: &'static F) ensures #[trigger] <F as vstd::std_specs::ops::AddSpec<&'static F>>::add_spec(a, b) == F::of(a.v() + b.v());
pub broadcast axiom fn zax_add_rr<F: ZField + 'static>(a: &'static F, b: &'static F) where &'static F: Add<&'static F, Output = F>
    ensures #[trigger] <&'static F as vstd::std_specs::ops::AddSpec<&'static F>>::add_spec(a, b) == F::of(a.v() + b.v());
pub broadcast axiom fn zax_add_rv<F: ZField + 'static>(a: &'static F, b: F) where &'static F: Add<F, Output = F>
    ensures #[trigger] <&'static F as vstd::std_specs::ops::AddSpec<F>>::add_spec(a, b) == F::of(a.v() + b.v());
pub broadcast axiom fn zax_addreq_vv<F: ZField>(a: F, b: F) ensures #[trigger] <F as vstd::std_specs::ops::AddSpec<F>>::add_req(a, b);
pub broadcast axiom fn zax_addreq_vr<F: ZField>(a: F, b: &'static F) ensures #[trigger] <F as vstd::std_specs::ops::AddSpec<&'static F>>::add_req(a, b);
pub broadcast axiom fn zax_addreq_rr<F: ZField + 'static>(a: &'static F, b: &'static F) where &'static F: Add<&'static F, Output = F>
    ensures #[trigger] <&'static F as vstd::std_specs::ops::AddSpec<&'static F>>::add_req(a, b);
pub broadcast axiom fn zax_addreq_rv<F: ZField + 'static>(a: &'static F, b: F) where &'static F: Add<F, Output = F>
    ensures #[trigger] <&'static F as vstd::std_specs::ops::AddSpec<F>>::add_req(a, b);
pub broadcast axiom fn zax_addob_vv<F: ZField>() ensures #[trigger] <F as vstd::std_specs::ops::AddSpec<F>>::obeys_add_spec();
pub broadcast axiom fn zax_addob_vr<F: ZField>() ensures #[trigger] <F as vstd::std_specs::ops::AddSpec<&'static F>>::obeys_add_spec();
pub broadcast axiom fn zax_addob_rr<F: ZField + 'static>() where &'static F: Add<&'static F, Output = F>
    ensures #[trigger] <&'static F as vstd::std_specs::ops::AddSpec<&'static F>>::obeys_add_spec();
pub broadcast axiom fn zax_addob_rv<F: ZField + 'static>() where &'static F: Add<F, Output = F>
    ensures #[trigger] <&'static F as vstd::std_specs::ops::AddSpec<F>>::obeys_add_spec();
// multiplication: value/value, value/ref
pub broadcast axiom fn zax_mul_vv<F: ZField>(a: F, b: F) ensures #[trigger] <F as vstd::std_specs::ops::MulSpec<F>>::mul_spec(a, b) == F::of(a.v() * b.v());
pub broadcast axiom fn zax_mul_vr<F: ZField>(a: F, b: &'static F) ensures #[trigger] <F as vstd::std_specs::ops::MulSpec<&'static F>>::mul_spec(a, b) == F::of(a.v() * b.v());
pub broadcast axiom fn zax_mulreq_vv<F: ZField>(a: F, b: F) ensures #[trigger] <F as vstd::std_specs::ops::MulSpec<F>>::mul_req(a, b);
pub broadcast axiom fn zax_mulreq_vr<F: ZField>(a: F, b: &'static F) ensures #[trigger] <F as vstd::std_specs::ops::MulSpec<&'static F>>::mul_req(a, b);
pub broadcast axiom fn zax_mulob_vv<F: ZField>() ensures #[trigger] <F as vstd::std_specs::ops::MulSpec<F>>::obeys_mul_spec();
pub broadcast axiom fn zax_mulob_vr<F: ZField>() ensures #[trigger] <F as vstd::std_specs::ops::MulSpec<&'static F>>::obeys_mul_spec();
pub broadcast group zfield_ops {
    zax_of, zax_range, zax_add_vv, zax_add_vr, zax_add_rr, zax_add_rv, zax_addreq_vv, zax_addreq_vr, zax_addreq_rr, zax_addreq_rv,
    zax_addob_vv, zax_addob_vr, zax_addob_rr, zax_addob_rv, zax_mul_vv, zax_mul_vr, zax_mulreq_vv, zax_mulreq_vr, zax_mulob_vv, zax_mulob_vr,
}
// normalisation of nested sums/products modulo p (proved from vstd), so that the contract of mul_by_a does not depend on
// HOW the routine adds things up
pub broadcast proof fn zlemma_mod_add_l(a: int, b: int, p: int) requires p > 0 ensures #[trigger] (((a % p) + b) % p) == (a + b) % p
{ vstd::arithmetic::div_mod::lemma_add_mod_noop(a, b, p); vstd::arithmetic::div_mod::lemma_add_mod_noop(a % p, b, p); vstd::arithmetic::div_mod::lemma_mod_twice(a, p); }
pub broadcast proof fn zlemma_mod_add_r(a: int, b: int, p: int) requires p > 0 ensures #[trigger] ((a + (b % p)) % p) == (a + b) % p
{ vstd::arithmetic::div_mod::lemma_add_mod_noop(a, b, p); vstd::arithmetic::div_mod::lemma_add_mod_noop(a, b % p, p); vstd::arithmetic::div_mod::lemma_mod_twice(b, p); }
pub broadcast proof fn zlemma_mod_mul_l(a: int, b: int, p: int) requires p > 0 ensures #[trigger] (((a % p) * b) % p) == (a * b) % p
{ vstd::arithmetic::div_mod::lemma_mul_mod_noop_left(a, b, p); }
pub broadcast proof fn zlemma_mod_mul_r(a: int, b: int, p: int) requires p > 0 ensures #[trigger] ((a * (b % p)) % p) == (a * b) % p
{ vstd::arithmetic::div_mod::lemma_mul_mod_noop_right(a, b, p); }
pub broadcast group zmod_norm { zlemma_mod_add_l, zlemma_mod_add_r, zlemma_mod_mul_l, zlemma_mod_mul_r }
