// ===== mod vp: stand-in declarations for the dependency API surface, with ASSUMED contracts =====
// DESIGN.md §3.2 / §7 (A1-A9).  Nothing in this module is verified; every item is counted by the
// trusted-base scan.  The repo code is type-checked and verified *against* these declarations.
use core::ops::{Add, Mul, Sub, Neg, AddAssign, MulAssign, SubAssign};
use core::borrow::{Borrow, BorrowMut};
use vstd::std_specs::ops::*;
use vstd::std_specs::iter::{IteratorSpec};
use vstd::arithmetic::power2::pow2;

// ---------------------------------------------------------------------------------------------
// A3  Merlin transcript as a ghost trace
// ---------------------------------------------------------------------------------------------
pub enum TOp {
    Append { label: Seq<u8>, data: Seq<u8> },
    Challenge { label: Seq<u8>, len: nat },
}
#[verifier::external_body]
pub struct Transcript { _p: u8 }
impl View for Transcript {
    type V = Seq<TOp>;
    uninterp spec fn view(&self) -> Seq<TOp>;
}
impl Clone for Transcript {
    #[verifier::external_body]
    fn clone(&self) -> (r: Transcript) ensures r@ == self@ { unimplemented!() }
}
pub uninterp spec fn spec_challenge_bytes(trace: Seq<TOp>, label: Seq<u8>, len: nat) -> Seq<u8>;
pub uninterp spec fn u64_le(n: u64) -> Seq<u8>;
pub axiom fn ax_u64_le_injective(a: u64, b: u64)
    ensures u64_le(a) == u64_le(b) ==> a == b, u64_le(a).len() == 8;
impl Transcript {
    #[verifier::external_body]
    pub fn new(label: &'static [u8]) -> (r: Transcript)
        ensures r@ == seq![TOp::Append{label: seq![], data: label@}]
    { unimplemented!() }
    #[verifier::external_body]
    pub fn append_message(&mut self, label: &'static [u8], message: &[u8])
        ensures final(self)@ == old(self)@.push(TOp::Append{label: label@, data: message@})
    { unimplemented!() }
    #[verifier::external_body]
    pub fn append_u64(&mut self, label: &'static [u8], n: u64)
        ensures final(self)@ == old(self)@.push(TOp::Append{label: label@, data: u64_le(n)})
    { unimplemented!() }
    #[verifier::external_body]
    pub fn challenge_bytes(&mut self, label: &'static [u8], dest: &mut [u8])
        ensures final(self)@ == old(self)@.push(TOp::Challenge{label: label@, len: old(dest)@.len()}),
                final(dest)@ == spec_challenge_bytes(old(self)@, label@, old(dest)@.len()),
    { unimplemented!() }
}

// ---------------------------------------------------------------------------------------------
// A4  RNGs as ghost streams: an identity and a cursor; the k-th draw is a function of both
// ---------------------------------------------------------------------------------------------
pub ghost enum RngId {
    ChaCha { seed: Seq<u8> },
    /// merlin::TranscriptRng: transcript state at build_rng, witness re-keys in order, 32 bytes of external randomness
    Transcript { trace: Seq<TOp>, witness: Seq<(Seq<u8>, Seq<u8>)>, external: Seq<u8> },
    Opaque { id: int },
}
pub uninterp spec fn rng_bytes(id: RngId, pos: nat) -> Seq<u8>;
pub trait RngCore {
    spec fn sid(&self) -> RngId;
    spec fn pos(&self) -> nat;
}
pub trait CryptoRng {}
#[verifier::external_body]
pub struct ChaChaRng { _p: u8 }
impl RngCore for ChaChaRng {
    uninterp spec fn sid(&self) -> RngId;
    uninterp spec fn pos(&self) -> nat;
}
impl ChaChaRng {
    #[verifier::external_body]
    pub fn from_seed(seed: [u8; 32]) -> (r: ChaChaRng)
        ensures r.sid() == (RngId::ChaCha { seed: seed@ }), r.pos() == 0
    { unimplemented!() }
}
#[verifier::external_body]
pub struct TranscriptRngBuilder { _p: u8 }
#[verifier::external_body]
pub struct TranscriptRng { _p: u8 }
impl RngCore for TranscriptRng {
    uninterp spec fn sid(&self) -> RngId;
    uninterp spec fn pos(&self) -> nat;
}
impl CryptoRng for TranscriptRng {}
impl TranscriptRngBuilder {
    pub uninterp spec fn trace(&self) -> Seq<TOp>;
    pub uninterp spec fn witness(&self) -> Seq<(Seq<u8>, Seq<u8>)>;
    #[verifier::external_body]
    pub fn rekey_with_witness_bytes(self, label: &'static [u8], witness: &[u8]) -> (r: TranscriptRngBuilder)
        ensures r.trace() == self.trace(), r.witness() == self.witness().push((label@, witness@))
    { unimplemented!() }
    #[verifier::external_body]
    pub fn finalize<R: RngCore + CryptoRng>(self, rng: &mut R) -> (r: TranscriptRng)
        ensures
            final(rng).sid() == old(rng).sid(),
            final(rng).pos() == old(rng).pos() + 1,
            r.sid() == (RngId::Transcript { trace: self.trace(), witness: self.witness(), external: rng_bytes(old(rng).sid(), old(rng).pos()) }),
            r.pos() == 0,
    { unimplemented!() }
}
impl Transcript {
    #[verifier::external_body]
    pub fn build_rng(&self) -> (r: TranscriptRngBuilder)
        ensures r.trace() == self@, r.witness() == Seq::<(Seq<u8>, Seq<u8>)>::empty()
    { unimplemented!() }
}

// ---------------------------------------------------------------------------------------------
// A1  scalar field: commutative ring with inverses (axioms as explicit lemmas, see `fax_*`)
// A5  serialization: fixed injective encodings
// ---------------------------------------------------------------------------------------------
#[derive(Debug)]
pub struct SerializationError;

pub trait PrimeField: 'static + core::iter::Sum<Self> + Sized + Copy + Clone + core::fmt::Debug + PartialEq
    + Add<Self, Output=Self> + Sub<Self, Output=Self> + Mul<Self, Output=Self> + Neg<Output=Self>
    + AddAssign<Self> + SubAssign<Self> + MulAssign<Self>
    + for<'a> Mul<&'a Self, Output=Self> + for<'a> MulAssign<&'a Self>
{
    spec fn s_zero() -> Self;
    spec fn s_one() -> Self;
    spec fn s_add(a: Self, b: Self) -> Self;
    spec fn s_mul(a: Self, b: Self) -> Self;
    spec fn s_neg(a: Self) -> Self;
    spec fn s_inv(a: Self) -> Self;
    /// the k-th field element drawn from the RNG stream `id` (UniformRand)
    spec fn draw(id: RngId, k: nat) -> Self;
    spec fn ser(&self) -> Seq<u8>;

    fn serialize_uncompressed(&self, w: &mut Vec<u8>) -> (r: Result<(), SerializationError>)
        ensures r is Ok, final(w)@ == old(w)@ + self.ser();
    fn rand<R: RngCore>(rng: &mut R) -> (r: Self)
        ensures final(rng).sid() == old(rng).sid(), final(rng).pos() == old(rng).pos() + 1,
                r == Self::draw(old(rng).sid(), old(rng).pos());
    fn zero() -> (r: Self) ensures r == Self::s_zero();
    fn one() -> (r: Self) ensures r == Self::s_one();
    fn inverse(&self) -> (r: Option<Self>)
        ensures (r is Some) == (*self != Self::s_zero()), r is Some ==> r->Some_0 == Self::s_inv(*self);
    type BigInt;
    spec fn of_bigint(b: Self::BigInt) -> Self;
    fn into_bigint(self) -> (r: Self::BigInt) ensures Self::of_bigint(r) == self;
    fn is_zero(&self) -> (b: bool) ensures b == (*self == Self::s_zero());
}
pub open spec fn f_sub<F: PrimeField>(a: F, b: F) -> F { F::s_add(a, F::s_neg(b)) }

// operators on field elements mean the spec operations (the `*_req` preconditions are trivially true)
pub broadcast axiom fn ax_obeys_add<F: PrimeField>() ensures #[trigger] <F as AddSpec<F>>::obeys_add_spec();
pub broadcast axiom fn ax_obeys_sub<F: PrimeField>() ensures #[trigger] <F as SubSpec<F>>::obeys_sub_spec();
pub broadcast axiom fn ax_obeys_mul<F: PrimeField>() ensures #[trigger] <F as MulSpec<F>>::obeys_mul_spec();
pub broadcast axiom fn ax_obeys_neg<F: PrimeField>() ensures #[trigger] <F as NegSpec>::obeys_neg_spec();
pub broadcast axiom fn ax_obeys_add_assign<F: PrimeField>() ensures #[trigger] <F as AddAssignSpec<F>>::obeys_add_assign_spec();
pub broadcast axiom fn ax_obeys_sub_assign<F: PrimeField>() ensures #[trigger] <F as SubAssignSpec<F>>::obeys_sub_assign_spec();
pub broadcast axiom fn ax_obeys_mul_assign<F: PrimeField>() ensures #[trigger] <F as MulAssignSpec<F>>::obeys_mul_assign_spec();
pub broadcast axiom fn ax_obeys_mulr<F: PrimeField>() ensures #[trigger] <F as MulSpec<&'static F>>::obeys_mul_spec();
pub broadcast axiom fn ax_obeys_mulr_assign<F: PrimeField>() ensures #[trigger] <F as MulAssignSpec<&'static F>>::obeys_mul_assign_spec();
pub broadcast axiom fn ax_add<F: PrimeField>(a: F, b: F)
    ensures #[trigger] <F as AddSpec<F>>::add_spec(a, b) == F::s_add(a, b);
pub broadcast axiom fn ax_add_req<F: PrimeField>(a: F, b: F) ensures #[trigger] <F as AddSpec<F>>::add_req(a, b);
pub broadcast axiom fn ax_sub<F: PrimeField>(a: F, b: F)
    ensures #[trigger] <F as SubSpec<F>>::sub_spec(a, b) == f_sub(a, b);
pub broadcast axiom fn ax_sub_req<F: PrimeField>(a: F, b: F) ensures #[trigger] <F as SubSpec<F>>::sub_req(a, b);
pub broadcast axiom fn ax_mul<F: PrimeField>(a: F, b: F)
    ensures #[trigger] <F as MulSpec<F>>::mul_spec(a, b) == F::s_mul(a, b);
pub broadcast axiom fn ax_mul_req<F: PrimeField>(a: F, b: F) ensures #[trigger] <F as MulSpec<F>>::mul_req(a, b);
pub broadcast axiom fn ax_mulr<F: PrimeField>(a: F, b: &F)
    ensures #[trigger] <F as MulSpec<&F>>::mul_spec(a, b) == F::s_mul(a, *b), <F as MulSpec<&F>>::obeys_mul_spec();
pub broadcast axiom fn ax_mulr_req<F: PrimeField>(a: F, b: &F)
    ensures #[trigger] <F as MulSpec<&F>>::mul_req(a, b), <F as MulSpec<&F>>::obeys_mul_spec();
pub broadcast axiom fn ax_neg<F: PrimeField>(a: F)
    ensures #[trigger] <F as NegSpec>::neg_spec(a) == F::s_neg(a);
pub broadcast axiom fn ax_neg_req<F: PrimeField>(a: F) ensures #[trigger] <F as NegSpec>::neg_req(a);
pub broadcast axiom fn ax_add_assign<F: PrimeField>(a: F, b: F)
    ensures #[trigger] <F as AddAssignSpec<F>>::add_assign_spec(&a, b) == F::s_add(a, b);
pub broadcast axiom fn ax_add_assign_req<F: PrimeField>(a: F, b: F) ensures #[trigger] <F as AddAssignSpec<F>>::add_assign_req(&a, b);
pub broadcast axiom fn ax_sub_assign<F: PrimeField>(a: F, b: F)
    ensures #[trigger] <F as SubAssignSpec<F>>::sub_assign_spec(&a, b) == f_sub(a, b);
pub broadcast axiom fn ax_sub_assign_req<F: PrimeField>(a: F, b: F) ensures #[trigger] <F as SubAssignSpec<F>>::sub_assign_req(&a, b);
pub broadcast axiom fn ax_mul_assign<F: PrimeField>(a: F, b: F)
    ensures #[trigger] <F as MulAssignSpec<F>>::mul_assign_spec(&a, b) == F::s_mul(a, b);
pub broadcast axiom fn ax_mul_assign_req<F: PrimeField>(a: F, b: F) ensures #[trigger] <F as MulAssignSpec<F>>::mul_assign_req(&a, b);
pub broadcast axiom fn ax_mulr_assign<F: PrimeField>(a: F, b: &F)
    ensures #[trigger] <F as MulAssignSpec<&F>>::mul_assign_spec(&a, b) == F::s_mul(a, *b), <F as MulAssignSpec<&F>>::obeys_mul_assign_spec();
pub broadcast axiom fn ax_mulr_assign_req<F: PrimeField>(a: F, b: &F)
    ensures #[trigger] <F as MulAssignSpec<&F>>::mul_assign_req(&a, b), <F as MulAssignSpec<&F>>::obeys_mul_assign_spec();
// commutativity as broadcast facts (closed after one step: {ab, ba}); makes contracts insensitive to operand order in the code
pub broadcast axiom fn ax_mul_comm_b<F: PrimeField>(a: F, b: F) ensures #[trigger] F::s_mul(a, b) == F::s_mul(b, a);
pub broadcast axiom fn ax_add_comm_b<F: PrimeField>(a: F, b: F) ensures #[trigger] F::s_add(a, b) == F::s_add(b, a);
pub broadcast group field_ops {
    ax_mul_comm_b, ax_add_comm_b,
    ax_obeys_add, ax_obeys_sub, ax_obeys_mul, ax_obeys_neg, ax_obeys_add_assign, ax_obeys_sub_assign, ax_obeys_mul_assign, ax_obeys_mulr, ax_obeys_mulr_assign, ax_add, ax_sub, ax_mul, ax_mulr, ax_neg, ax_add_assign, ax_sub_assign, ax_mul_assign, ax_mulr_assign,
    ax_add_req, ax_sub_req, ax_mul_req, ax_mulr_req, ax_neg_req, ax_add_assign_req, ax_sub_assign_req, ax_mul_assign_req, ax_mulr_assign_req,
}

// field elements are plain values: Clone is Copy
pub broadcast axiom fn ax_field_clone<F: PrimeField>(a: &F, b: F)
    requires #[trigger] call_ensures(<F as Clone>::clone, (a,), b),
    ensures *a == b;
// ring / field axioms (A1) — not broadcast; proofs cite them explicitly
pub axiom fn fax_add_comm<F: PrimeField>(a: F, b: F) ensures F::s_add(a, b) == F::s_add(b, a);
pub axiom fn fax_add_assoc<F: PrimeField>(a: F, b: F, c: F) ensures F::s_add(F::s_add(a, b), c) == F::s_add(a, F::s_add(b, c));
pub axiom fn fax_add_zero<F: PrimeField>(a: F) ensures F::s_add(a, F::s_zero()) == a, F::s_add(F::s_zero(), a) == a;
pub axiom fn fax_add_neg<F: PrimeField>(a: F) ensures F::s_add(a, F::s_neg(a)) == F::s_zero(), F::s_add(F::s_neg(a), a) == F::s_zero();
pub axiom fn fax_mul_comm<F: PrimeField>(a: F, b: F) ensures F::s_mul(a, b) == F::s_mul(b, a);
pub axiom fn fax_mul_assoc<F: PrimeField>(a: F, b: F, c: F) ensures F::s_mul(F::s_mul(a, b), c) == F::s_mul(a, F::s_mul(b, c));
pub axiom fn fax_mul_one<F: PrimeField>(a: F) ensures F::s_mul(a, F::s_one()) == a, F::s_mul(F::s_one(), a) == a;
pub axiom fn fax_mul_zero<F: PrimeField>(a: F) ensures F::s_mul(a, F::s_zero()) == F::s_zero(), F::s_mul(F::s_zero(), a) == F::s_zero();
pub axiom fn fax_distrib<F: PrimeField>(a: F, b: F, c: F)
    ensures F::s_mul(a, F::s_add(b, c)) == F::s_add(F::s_mul(a, b), F::s_mul(a, c)),
            F::s_mul(F::s_add(b, c), a) == F::s_add(F::s_mul(b, a), F::s_mul(c, a));
pub axiom fn fax_mul_inv<F: PrimeField>(a: F) requires a != F::s_zero() ensures F::s_mul(a, F::s_inv(a)) == F::s_one();
pub axiom fn fax_one_ne_zero<F: PrimeField>() ensures F::s_one() != F::s_zero();
pub axiom fn fax_ser_injective<F: PrimeField>(a: F, b: F) ensures a.ser() == b.ser() ==> a == b;

#[verifier::external_body]
pub fn batch_inversion<F: PrimeField>(v: &mut [F])
    ensures
        final(v)@.len() == old(v)@.len(),
        forall|i: int| 0 <= i < old(v)@.len() ==> #[trigger] final(v)@[i] == (if old(v)@[i] == F::s_zero() { F::s_zero() } else { F::s_inv(old(v)@[i]) }),
{ unimplemented!() }

// ---------------------------------------------------------------------------------------------
// A2  group: abelian group with scalar action; msm is the sum; Err exactly on length mismatch
// ---------------------------------------------------------------------------------------------
pub trait AffineRepr: 'static + Sized + Copy + Clone + core::fmt::Debug + PartialEq + Mul<<Self as AffineRepr>::ScalarField, Output = <Self as AffineRepr>::Group> {
    type ScalarField: PrimeField;
    type Group: GroupOps<Self, Self::ScalarField>;
    spec fn p_zero() -> Self;
    spec fn p_gen() -> Self;
    spec fn p_add(a: Self, b: Self) -> Self;
    spec fn p_smul(s: Self::ScalarField, a: Self) -> Self;
    /// the k-th point drawn from the RNG stream `id` (UniformRand, cofactor cleared)
    spec fn pt_draw(id: RngId, k: nat) -> Self;
    spec fn ser(&self) -> Seq<u8>;
    /// compressed encoding (ark-serialize `Compress::Yes`)
    spec fn ser_c(&self) -> Seq<u8>;

    fn rand<R: RngCore>(rng: &mut R) -> (r: Self)
        ensures final(rng).sid() == old(rng).sid(), final(rng).pos() == old(rng).pos() + 1,
                r == Self::pt_draw(old(rng).sid(), old(rng).pos());
    fn serialize_uncompressed(&self, w: &mut Vec<u8>) -> (r: Result<(), SerializationError>)
        ensures r is Ok, final(w)@ == old(w)@ + self.ser();
    fn is_zero(&self) -> (b: bool) ensures b == (*self == Self::p_zero());
    fn zero() -> (r: Self) ensures r == Self::p_zero();
    fn generator() -> (r: Self) ensures r == Self::p_gen();
    fn mul_bigint(&self, e: <Self::ScalarField as PrimeField>::BigInt) -> (r: Self::Group)
        ensures r.aff() == Self::p_smul(<Self::ScalarField as PrimeField>::of_bigint(e), *self);
}
// affine points are plain values: Clone is Copy
pub broadcast axiom fn ax_point_clone<G: AffineRepr>(a: &G, b: G)
    requires #[trigger] call_ensures(<G as Clone>::clone, (a,), b),
    ensures *a == b;
// stands in for ark_ec::{CurveGroup, VariableBaseMSM, Group}; parametrised by base/scalar because Verus
// rejects mutually recursive traits (AffineRepr <-> CurveGroup in arkworks)
pub trait GroupOps<B, S>: Sized + Add<Self, Output=Self> {
    /// the affine (canonical) value of a projective element
    spec fn aff(&self) -> B;
    spec fn msm_spec(bases: Seq<B>, scalars: Seq<S>) -> B;
    spec fn zero_spec() -> B;
    spec fn add_aff(a: B, b: B) -> B;
    fn msm(bases: &[B], scalars: &[S]) -> (r: Result<Self, usize>)
        ensures (bases@.len() == scalars@.len()) == (r is Ok),
                r is Ok ==> r->Ok_0.aff() == Self::msm_spec(bases@, scalars@);
    fn is_zero(&self) -> (b: bool) ensures b == (self.aff() == Self::zero_spec());
    fn into_affine(self) -> (r: B) ensures r == self.aff();
}
/// msm as a recursive sum (right fold): sum_i scalars[i] * bases[i]
pub open spec fn msm<G: AffineRepr>(bases: Seq<G>, scalars: Seq<G::ScalarField>) -> G
    decreases bases.len()
{
    if bases.len() == 0 || scalars.len() != bases.len() { G::p_zero() }
    else { G::p_add(msm::<G>(bases.drop_last(), scalars.drop_last()), G::p_smul(scalars.last(), bases.last())) }
}
pub broadcast axiom fn gax_link<G: AffineRepr>(bases: Seq<G>, scalars: Seq<G::ScalarField>)
    ensures #[trigger] <G::Group as GroupOps<G, G::ScalarField>>::msm_spec(bases, scalars) == msm::<G>(bases, scalars);
pub broadcast axiom fn gax_zero<G: AffineRepr>()
    ensures #[trigger] <G::Group as GroupOps<G, G::ScalarField>>::zero_spec() == G::p_zero();
pub broadcast axiom fn gax_add<G: AffineRepr>(a: G::Group, b: G::Group)
    ensures (#[trigger] <G::Group as AddSpec<G::Group>>::add_spec(a, b)).aff() == G::p_add(a.aff(), b.aff()),
            <G::Group as AddSpec<G::Group>>::obeys_add_spec();
pub broadcast axiom fn gax_add_req<G: AffineRepr>(a: G::Group, b: G::Group)
    ensures #[trigger] <G::Group as AddSpec<G::Group>>::add_req(a, b), <G::Group as AddSpec<G::Group>>::obeys_add_spec();
pub broadcast axiom fn gax_obeys<G: AffineRepr>()
    ensures #[trigger] <G::Group as AddSpec<G::Group>>::obeys_add_spec();
// `point * scalar` (ark-ec: impl Mul<ScalarField> for Affine, Output = Projective)
pub broadcast axiom fn gax_pmul<G: AffineRepr>(a: G, s: G::ScalarField)
    ensures (#[trigger] <G as MulSpec<G::ScalarField>>::mul_spec(a, s)).aff() == G::p_smul(s, a);
pub broadcast axiom fn gax_pmul_req<G: AffineRepr>(a: G, s: G::ScalarField)
    ensures #[trigger] <G as MulSpec<G::ScalarField>>::mul_req(a, s);
pub broadcast axiom fn gax_pmul_obeys<G: AffineRepr>()
    ensures #[trigger] <G as MulSpec<G::ScalarField>>::obeys_mul_spec();
// commutativity of point addition as a broadcast fact (closed after one step)
pub broadcast axiom fn gax_add_comm_b<G: AffineRepr>(a: G, b: G) ensures #[trigger] G::p_add(a, b) == G::p_add(b, a);
pub broadcast group group_ops { gax_add_comm_b, gax_link, gax_zero, gax_add, gax_add_req, gax_obeys, gax_pmul, gax_pmul_req, gax_pmul_obeys }

pub axiom fn gax_add_comm<G: AffineRepr>(a: G, b: G) ensures G::p_add(a, b) == G::p_add(b, a);
pub axiom fn gax_add_assoc<G: AffineRepr>(a: G, b: G, c: G) ensures G::p_add(G::p_add(a, b), c) == G::p_add(a, G::p_add(b, c));
pub axiom fn gax_add_zero<G: AffineRepr>(a: G) ensures G::p_add(a, G::p_zero()) == a, G::p_add(G::p_zero(), a) == a;
pub axiom fn gax_smul_zero<G: AffineRepr>(a: G) ensures G::p_smul(G::ScalarField::s_zero(), a) == G::p_zero();
pub axiom fn gax_smul_one<G: AffineRepr>(a: G) ensures G::p_smul(G::ScalarField::s_one(), a) == a;
pub axiom fn gax_smul_pzero<G: AffineRepr>(s: G::ScalarField) ensures G::p_smul(s, G::p_zero()) == G::p_zero();
pub axiom fn gax_smul_add_scalar<G: AffineRepr>(s: G::ScalarField, t: G::ScalarField, a: G)
    ensures G::p_smul(G::ScalarField::s_add(s, t), a) == G::p_add(G::p_smul(s, a), G::p_smul(t, a));
pub axiom fn gax_smul_add_point<G: AffineRepr>(s: G::ScalarField, a: G, b: G)
    ensures G::p_smul(s, G::p_add(a, b)) == G::p_add(G::p_smul(s, a), G::p_smul(s, b));
pub axiom fn gax_smul_mul<G: AffineRepr>(s: G::ScalarField, t: G::ScalarField, a: G)
    ensures G::p_smul(G::ScalarField::s_mul(s, t), a) == G::p_smul(s, G::p_smul(t, a));
pub axiom fn gax_ser_injective<G: AffineRepr>(a: G, b: G) ensures a.ser() == b.ser() ==> a == b;

// ---------------------------------------------------------------------------------------------
// A6  hashes
// ---------------------------------------------------------------------------------------------
#[verifier::external_body]
pub struct Sha3_512 { _p: u8 }
pub uninterp spec fn sha3_512(input: Seq<u8>) -> Seq<u8>;
pub axiom fn ax_sha3_len(input: Seq<u8>) ensures sha3_512(input).len() == 64;
impl Sha3_512 {
    pub uninterp spec fn absorbed(&self) -> Seq<u8>;
    #[verifier::external_body] pub fn new() -> (r: Sha3_512) ensures r.absorbed() == Seq::<u8>::empty() { unimplemented!() }
    #[verifier::external_body] pub fn finalize(self) -> (r: [u8; 64]) ensures r@ == sha3_512(self.absorbed()) { unimplemented!() }
}
pub struct Digest;
impl Digest {
    #[verifier::external_body]
    pub fn update(h: &mut Sha3_512, data: &[u8]) ensures final(h).absorbed() == old(h).absorbed() + data@ { unimplemented!() }
}
pub struct LittleEndian;
pub uninterp spec fn u32_le(n: u32) -> Seq<u8>;
pub axiom fn ax_u32_le(a: u32, b: u32) ensures u32_le(a).len() == 4, u32_le(a) == u32_le(b) ==> a == b;
impl LittleEndian {
    #[verifier::external_body]
    pub fn write_u32(buf: &mut [u8], n: u32)
        requires old(buf)@.len() >= 4
        ensures final(buf)@.len() == old(buf)@.len(), final(buf)@.subrange(0, 4) == u32_le(n),
                final(buf)@.subrange(4, old(buf)@.len() as int) == old(buf)@.subrange(4, old(buf)@.len() as int)
    { unimplemented!() }
}
pub trait Clear { fn clear(&mut self) opens_invariants none no_unwind; }
impl<T> Clear for T { #[verifier::external_body] fn clear(&mut self) { } }

// ---------------------------------------------------------------------------------------------
// A5  ark-serialize cursor and the (derived) codec traits
// ---------------------------------------------------------------------------------------------
pub struct Cursor<T> { pub inner: T, pub pos: u64 }
impl<T> Cursor<T> {
    pub fn new(inner: T) -> (r: Self) ensures r.inner == inner, r.pos == 0 { Cursor { inner, pos: 0 } }
    pub fn into_inner(self) -> (r: T) ensures r == self.inner { self.inner }
}
pub open spec fn enc_pts<G: AffineRepr>(v: Seq<G>) -> Seq<u8>
    decreases v.len()
{
    if v.len() == 0 { Seq::<u8>::empty() } else { enc_pts::<G>(v.drop_last()) + v.last().ser_c() }
}
/// ark-serialize Vec<T>: u64 little-endian length, then the elements
pub open spec fn enc_vec<G: AffineRepr>(v: Seq<G>) -> Seq<u8> { u64_le(v.len() as u64) + enc_pts::<G>(v) }
pub open spec fn enc_rows<G: AffineRepr>(v: Seq<Vec<G>>) -> Seq<u8>
    decreases v.len()
{
    if v.len() == 0 { Seq::<u8>::empty() } else { enc_rows::<G>(v.drop_last()) + enc_vec::<G>(v.last()@) }
}
pub open spec fn enc_vec_vec<G: AffineRepr>(v: Seq<Vec<G>>) -> Seq<u8> { u64_le(v.len() as u64) + enc_rows::<G>(v) }
pub trait CanonicalSerialize {
    spec fn enc(&self) -> Seq<u8>;
    fn serialize_compressed(&self, w: &mut Cursor<Vec<u8>>) -> (r: Result<(), SerializationError>)
        ensures r is Ok ==> final(w).inner@ == old(w).inner@ + self.enc();
}
pub trait CanonicalDeserialize: Sized {
    /// `v` was decoded from (a prefix of) `bytes` by the *validating, compressed* decoder: canonical scalars,
    /// points on the curve and in the prime-order subgroup, complete input (assumed behaviour of ark-serialize, A5)
    spec fn valid_decoding(bytes: Seq<u8>, v: Self) -> bool;
    fn deserialize_compressed(r: &mut Cursor<&[u8]>) -> (res: Result<Self, SerializationError>)
        ensures res is Ok ==> Self::valid_decoding(old(r).inner@, res->Ok_0);
    // the non-validating / uncompressed variants promise nothing
    fn deserialize_compressed_unchecked(r: &mut Cursor<&[u8]>) -> Result<Self, SerializationError>;
    fn deserialize_uncompressed(r: &mut Cursor<&[u8]>) -> Result<Self, SerializationError>;
}

// ---------------------------------------------------------------------------------------------
// A7  small std functions
// ---------------------------------------------------------------------------------------------
pub open spec fn is_pow2(n: int) -> bool { exists|k: nat| n == #[trigger] pow2(k) }
pub uninterp spec fn np2(n: int) -> int;
pub broadcast axiom fn ax_np2(n: int)
    ensures #[trigger] np2(n) >= n, np2(n) >= 1, is_pow2(np2(n)), n >= 1 ==> np2(n) < 2 * n, n <= 1 ==> np2(n) == 1,
            is_pow2(n) ==> np2(n) == n,
            n <= 0x4000_0000_0000_0000 ==> np2(n) <= 0x4000_0000_0000_0000;
pub assume_specification [usize::is_power_of_two] (x: usize) -> (r: bool) ensures r == is_pow2(x as int);
pub assume_specification [usize::trailing_zeros] (x: usize) -> (r: u32) ensures x != 0 ==> r < usize::BITS, is_pow2(x as int) ==> pow2(r as nat) == x;
pub assume_specification [usize::next_power_of_two] (x: usize) -> (r: usize)
    requires x as int <= (usize::MAX as int + 1) / 2
    ensures r == np2(x as int);
pub assume_specification<T> [core::mem::replace] (a: &mut T, b: T) -> (r: T) ensures r == *old(a), *final(a) == b;

/// the value a `Borrow`/`BorrowMut` implementor lends out (A7: `borrow` and `borrow_mut` lend the same object,
/// and what is written through `borrow_mut` is what is lent next time)
pub uninterp spec fn vx_borrowed<T: ?Sized, B: ?Sized>(t: &T) -> &B;
#[verifier::external_trait_specification]
pub trait ExBorrow<Borrowed: ?Sized> {
    type ExternalTraitSpecificationFor: core::borrow::Borrow<Borrowed>;
    fn borrow(&self) -> (r: &Borrowed)
        ensures r == vx_borrowed::<Self, Borrowed>(self);
}
#[verifier::external_trait_specification]
pub trait ExBorrowMut<Borrowed: ?Sized>: core::borrow::Borrow<Borrowed> {
    type ExternalTraitSpecificationFor: core::borrow::BorrowMut<Borrowed>;
    fn borrow_mut(&mut self) -> (r: &mut Borrowed)
        ensures vx_same::<Borrowed>(&*r, vx_borrowed::<Self, Borrowed>(old(self))),
                vx_same::<Borrowed>(&*final(r), vx_borrowed::<Self, Borrowed>(final(self)));
}
pub uninterp spec fn vx_same<B: ?Sized>(a: &B, b: &B) -> bool;
pub broadcast axiom fn ax_vx_same<B>(a: &B, b: &B)
    ensures #[trigger] vx_same::<B>(a, b) == (*a == *b);
pub open spec fn vx_borrow_spec<T: BorrowMut<Transcript>>(t: &T) -> Transcript { *vx_borrowed::<T, Transcript>(t) }
#[verifier::external_trait_specification]
pub trait ExSum<A>: Sized {
    type ExternalTraitSpecificationFor: core::iter::Sum<A>;
}

// sum of field elements
pub open spec fn fsum<F: PrimeField>(s: Seq<F>) -> F
    decreases s.len()
{
    if s.len() == 0 { F::s_zero() } else { F::s_add(fsum(s.drop_last()), s.last()) }
}
pub uninterp spec fn sum_post<I, S>(a: I, r: S) -> bool;
pub trait VxIterSum: Iterator + Sized {
    fn vx_sum<S: core::iter::Sum<Self::Item>>(self) -> (r: S)
        ensures sum_post(self, r);
}
impl<I: Iterator + Sized> VxIterSum for I {
    #[verifier::external_body]
    fn vx_sum<S: core::iter::Sum<Self::Item>>(self) -> (r: S) { self.sum() }
}
pub broadcast axiom fn sum_postcondition<F: PrimeField, I: Iterator<Item = F>>(a: I, r: F)
    requires a.obeys_prophetic_iter_laws(), #[trigger] sum_post(a, r),
    ensures a.will_return_none(), r == fsum(a.remaining());

// ---------------------------------------------------------------------------------------------
// R7  user callbacks (dyn Fn is not expressible): opaque object, behaviour by trait-level contract
// ---------------------------------------------------------------------------------------------
#[verifier::external_body]
#[verifier::accept_recursive_types(X)]
pub struct VxCallback<X> { _p: core::marker::PhantomData<X> }
