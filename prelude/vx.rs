// ===== mod vx: assumed specifications for std items that vstd 0.2026.09.13 does not cover =====
// A7 of DESIGN.md §7.  Every item here is an *assumption* (external_body / assume_specification /
// axiom / uninterp) and is counted by the mechanical trusted-base scan.  The shapes follow vstd's
// own specs for take/zip/map (prophetic `remaining()` model).
use core::iter::{Chain, Once, Enumerate};
use vstd::std_specs::iter::{IteratorSpec};

// ---- chain ----
#[verifier::external_type_specification]
#[verifier::external_body]
#[verifier::reject_recursive_types(A)]
#[verifier::reject_recursive_types(B)]
pub struct ExChain<A, B>(Chain<A, B>);

pub uninterp spec fn chain_post<I, U: IntoIterator>(a: I, other: U, r: Chain<I, U::IntoIter>) -> bool;
pub uninterp spec fn chain_snd<A, B>(r: Chain<A, B>) -> B;

pub trait VxIterChain: Iterator + Sized {
    fn vx_chain<U: IntoIterator<Item = Self::Item>>(self, other: U) -> (r: Chain<Self, U::IntoIter>)
        ensures chain_post(self, other, r);
}
impl<I: Iterator + Sized> VxIterChain for I {
    #[verifier::external_body]
    fn vx_chain<U: IntoIterator<Item = Self::Item>>(self, other: U) -> (r: Chain<Self, U::IntoIter>)
    { self.chain(other) }
}
pub broadcast axiom fn chain_postcondition<I: Iterator, U: IntoIterator<Item = I::Item>>(a: I, other: U, r: Chain<I, U::IntoIter>)
    requires
        a.obeys_prophetic_iter_laws(),
        #[trigger] chain_post(a, other, r),
    ensures
        call_ensures(U::into_iter, (other,), chain_snd(r)),
        chain_snd(r).obeys_prophetic_iter_laws() ==> r.obeys_prophetic_iter_laws(),
        r.remaining() == a.remaining() + chain_snd(r).remaining(),
        r.will_return_none() == (a.will_return_none() && chain_snd(r).will_return_none()),
        r.decrease() is Some == (a.decrease() is Some && chain_snd(r).decrease() is Some),
;

// ---- once ----
#[verifier::external_type_specification]
#[verifier::external_body]
#[verifier::reject_recursive_types(T)]
pub struct ExOnce<T>(Once<T>);

pub assume_specification<T>[ core::iter::once ](v: T) -> (r: Once<T>)
    ensures r.obeys_prophetic_iter_laws(), r.remaining() == seq![v], r.will_return_none(), r.decrease() is Some;

// ---- cloned ----
// `.cloned()` is rewritten (R6) to `.vx_cloned()`, which returns this wrapper instead of core's
// `Cloned<I>`: Verus has no normalisation axiom for `<Cloned<I> as Iterator>::Item` of the external
// impl, so values of that type cannot be related to `Seq<T>`.  `next` is core's definition.
pub struct VxCloned<I, T> { pub inner: I, pub _t: core::marker::PhantomData<T> }
impl<'a, T: 'a + Clone, I: Iterator<Item = &'a T>> Iterator for VxCloned<I, T> {
    type Item = T;
    #[verifier::external_body]
    fn next(&mut self) -> Option<T> { self.inner.next().cloned() }
}
impl<'a, T: 'a + Clone, I: Iterator<Item = &'a T>> vstd::std_specs::iter::IteratorSpecImpl for VxCloned<I, T> {
    open spec fn obeys_prophetic_iter_laws(&self) -> bool { self.inner.obeys_prophetic_iter_laws() }
    uninterp spec fn remaining(&self) -> Seq<T>;
    uninterp spec fn will_return_none(&self) -> bool;
    uninterp spec fn decrease(&self) -> Option<nat>;
    uninterp spec fn peek(&self, index: int) -> Option<T>;
}
pub trait VxIterCloned<'a, T: 'a + Clone>: Iterator<Item = &'a T> + Sized {
    fn vx_cloned(self) -> (r: VxCloned<Self, T>);
}
// element type Copy: the clone of an element is the element
impl<'a, T: 'a + Copy, I: Iterator<Item = &'a T> + Sized> VxIterCloned<'a, T> for I {
    #[verifier::external_body]
    fn vx_cloned(self) -> (r: VxCloned<Self, T>)
        ensures
            r.inner == self,
            self.obeys_prophetic_iter_laws() ==> (
                r.remaining().len() == self.remaining().len()
                && (forall|k: int| 0 <= k < self.remaining().len() ==> #[trigger] r.remaining()[k] == *self.remaining()[k])
                && r.will_return_none() == self.will_return_none()
                && (r.decrease() is Some) == (self.decrease() is Some)),
    { VxCloned { inner: self, _t: core::marker::PhantomData } }
}

// ---- map ----
// `.map(` is rewritten (R6) to `.vx_map(`.  vstd's own spec for Iterator::map is delivered through a
// broadcast lemma whose trait bound on the closure type is never established for closures created inside
// a *generic* function (all repo code is generic over the curve), so nothing is known about the mapped
// values.  This wrapper states the same facts (vstd's `map_postcondition`) directly as the method's
// postcondition.  `next` is core's definition.
pub struct VxMap<I, B> { pub inner: I, pub _b: core::marker::PhantomData<B> }
// NOTE the closure type is deliberately not a parameter of the stand-in type: Verus does not establish
// `FnMut` bounds for closure types inside trait-impl methods, which blocks every trait-dispatched spec
// on a type that mentions the closure.  The closure enters only through `call_ensures` below.
impl<B, I: Iterator> Iterator for VxMap<I, B> {
    type Item = B;
    #[verifier::external_body]
    fn next(&mut self) -> Option<B> { unimplemented!() }
}
impl<B, I: Iterator> vstd::std_specs::iter::IteratorSpecImpl for VxMap<I, B> {
    open spec fn obeys_prophetic_iter_laws(&self) -> bool { self.inner.obeys_prophetic_iter_laws() }
    uninterp spec fn remaining(&self) -> Seq<B>;
    uninterp spec fn will_return_none(&self) -> bool;
    uninterp spec fn decrease(&self) -> Option<nat>;
    uninterp spec fn peek(&self, index: int) -> Option<B>;
}
pub trait VxIterMap: Iterator + Sized {
    fn vx_map<B, F: FnMut(Self::Item) -> B>(self, f: F) -> (r: VxMap<Self, B>)
        requires
            self.obeys_prophetic_iter_laws(),
            forall|k: int| 0 <= k < self.remaining().len() ==> call_requires(f, (#[trigger] self.remaining()[k],)),
        ensures
            r.inner == self,
            r.remaining().len() <= self.remaining().len(),
            forall|k: int| 0 <= k < r.remaining().len() ==> call_ensures(f, (self.remaining()[k],), #[trigger] r.remaining()[k]),
            r.will_return_none() ==> (self.will_return_none() && r.remaining().len() == self.remaining().len()),
            (r.decrease() is Some) == (self.decrease() is Some);
}
impl<I: Iterator + Sized> VxIterMap for I {
    #[verifier::external_body]
    fn vx_map<B, F: FnMut(Self::Item) -> B>(self, f: F) -> (r: VxMap<Self, B>)
    { unimplemented!() }
}
// ---- filter ----  (same reason as map: the closure type is kept out of the stand-in type)
pub struct VxFilter<I> { pub inner: I }
impl<I: Iterator> Iterator for VxFilter<I> {
    type Item = I::Item;
    #[verifier::external_body]
    fn next(&mut self) -> Option<I::Item> { unimplemented!() }
}
impl<I: Iterator> vstd::std_specs::iter::IteratorSpecImpl for VxFilter<I> {
    open spec fn obeys_prophetic_iter_laws(&self) -> bool { self.inner.obeys_prophetic_iter_laws() }
    uninterp spec fn remaining(&self) -> Seq<I::Item>;
    uninterp spec fn will_return_none(&self) -> bool;
    uninterp spec fn decrease(&self) -> Option<nat>;
    uninterp spec fn peek(&self, index: int) -> Option<I::Item>;
}
pub trait VxIterFilter: Iterator + Sized {
    fn vx_filter<P: FnMut(&Self::Item) -> bool>(self, p: P) -> (r: VxFilter<Self>)
        requires
            self.obeys_prophetic_iter_laws(),
            forall|k: int| 0 <= k < self.remaining().len() ==> call_requires(p, (&#[trigger] self.remaining()[k],)),
        ensures
            r.inner == self,
            r.remaining().len() <= self.remaining().len(),
            // run to completion, it yields exactly the elements the predicate accepts, in order
            r.will_return_none() ==> (self.will_return_none()
                && r.remaining() == self.remaining().filter(|x: Self::Item| call_ensures(p, (&x,), true))),
            (r.decrease() is Some) == (self.decrease() is Some);
}
impl<I: Iterator + Sized> VxIterFilter for I {
    #[verifier::external_body]
    fn vx_filter<P: FnMut(&Self::Item) -> bool>(self, p: P) -> (r: VxFilter<Self>)
    { unimplemented!() }
}

// ---- all / any (eager; the closure enters only through call_requires / call_ensures) ----
pub trait VxIterAllAny: Iterator + Sized {
    fn vx_all<P: FnMut(Self::Item) -> bool>(&mut self, p: P) -> (r: bool)
        requires
            old(self).obeys_prophetic_iter_laws(),
            forall|k: int| 0 <= k < old(self).remaining().len() ==> call_requires(p, (#[trigger] old(self).remaining()[k],)),
        ensures
            r ==> forall|k: int| 0 <= k < old(self).remaining().len() ==> call_ensures(p, (#[trigger] old(self).remaining()[k],), true),
            !r ==> exists|k: int| 0 <= k < old(self).remaining().len() && call_ensures(p, (#[trigger] old(self).remaining()[k],), false);
    fn vx_any<P: FnMut(Self::Item) -> bool>(&mut self, p: P) -> (r: bool)
        requires
            old(self).obeys_prophetic_iter_laws(),
            forall|k: int| 0 <= k < old(self).remaining().len() ==> call_requires(p, (#[trigger] old(self).remaining()[k],)),
        ensures
            r ==> exists|k: int| 0 <= k < old(self).remaining().len() && call_ensures(p, (#[trigger] old(self).remaining()[k],), true),
            !r ==> forall|k: int| 0 <= k < old(self).remaining().len() ==> call_ensures(p, (#[trigger] old(self).remaining()[k],), false);
}
impl<I: Iterator + Sized> VxIterAllAny for I {
    #[verifier::external_body]
    fn vx_all<P: FnMut(Self::Item) -> bool>(&mut self, p: P) -> (r: bool) { self.all(p) }
    #[verifier::external_body]
    fn vx_any<P: FnMut(Self::Item) -> bool>(&mut self, p: P) -> (r: bool) { self.any(p) }
}

// the same method name on Result / Option (the rewrite is purely syntactic)
pub trait VxResultMap<T, E>: Sized {
    spec fn as_result(self) -> Result<T, E>;
    fn vx_map<U, F: FnOnce(T) -> U>(self, f: F) -> (r: Result<U, E>)
        requires self.as_result() is Ok ==> call_requires(f, (self.as_result()->Ok_0,)),
        ensures
            self.as_result() is Err ==> r is Err && r->Err_0 == self.as_result()->Err_0,
            self.as_result() is Ok ==> r is Ok && call_ensures(f, (self.as_result()->Ok_0,), r->Ok_0);
}
impl<T, E> VxResultMap<T, E> for Result<T, E> {
    open spec fn as_result(self) -> Result<T, E> { self }
    #[verifier::external_body]
    fn vx_map<U, F: FnOnce(T) -> U>(self, f: F) -> (r: Result<U, E>)
    { self.map(f) }
}
pub trait VxOptionMap<T>: Sized {
    spec fn as_option(self) -> Option<T>;
    fn vx_map<U, F: FnOnce(T) -> U>(self, f: F) -> (r: Option<U>)
        requires self.as_option() is Some ==> call_requires(f, (self.as_option()->Some_0,)),
        ensures
            self.as_option() is None ==> r is None,
            self.as_option() is Some ==> r is Some && call_ensures(f, (self.as_option()->Some_0,), r->Some_0);
}
impl<T> VxOptionMap<T> for Option<T> {
    open spec fn as_option(self) -> Option<T> { self }
    #[verifier::external_body]
    fn vx_map<U, F: FnOnce(T) -> U>(self, f: F) -> (r: Option<U>)
    { self.map(f) }
}

// ---- enumerate ----
#[verifier::external_type_specification]
#[verifier::external_body]
#[verifier::reject_recursive_types(I)]
pub struct ExEnumerate<I>(Enumerate<I>);

pub uninterp spec fn enumerate_post<I>(a: I, r: Enumerate<I>) -> bool;
pub trait VxIterEnumerate: Iterator + Sized {
    fn vx_enumerate(self) -> (r: Enumerate<Self>)
        ensures enumerate_post(self, r);
}
impl<I: Iterator + Sized> VxIterEnumerate for I {
    #[verifier::external_body]
    fn vx_enumerate(self) -> (r: Enumerate<Self>) { self.enumerate() }
}
pub broadcast axiom fn enumerate_postcondition<I: Iterator>(a: I, r: Enumerate<I>)
    requires
        a.obeys_prophetic_iter_laws(),
        #[trigger] enumerate_post(a, r),
    ensures
        r.obeys_prophetic_iter_laws(),
        r.remaining().len() == a.remaining().len(),
        forall|k: int| 0 <= k < a.remaining().len() ==> #[trigger] r.remaining()[k] == (k as usize, a.remaining()[k]),
        r.will_return_none() == a.will_return_none(),
        r.decrease() is Some == a.decrease() is Some,
;

// ---- Vec::extend (from anything iterable): appends the remaining elements ----
pub uninterp spec fn extend_post<T, I: IntoIterator<Item = T>>(before: Seq<T>, it: I, after: Seq<T>) -> bool;
pub uninterp spec fn extend_src<T, I: IntoIterator<Item = T>>(before: Seq<T>, it: I, after: Seq<T>) -> I::IntoIter;
pub assume_specification<T, A: core::alloc::Allocator, I: IntoIterator<Item = T>>[ <Vec<T, A> as Extend<T>>::extend ](v: &mut Vec<T, A>, it: I)
    ensures extend_post(old(v)@, it, final(v)@);
pub broadcast axiom fn extend_postcondition<T, I: IntoIterator<Item = T>>(before: Seq<T>, it: I, after: Seq<T>)
    requires #[trigger] extend_post(before, it, after),
    ensures
        call_ensures(I::into_iter, (it,), extend_src(before, it, after)),
        extend_src(before, it, after).obeys_prophetic_iter_laws() ==> after == before + extend_src(before, it, after).remaining() && extend_src(before, it, after).will_return_none(),
;

// the common case: the argument is itself an iterator (blanket IntoIterator = identity)
pub broadcast axiom fn extend_postcondition_iter<T, I: Iterator<Item = T>>(before: Seq<T>, it: I, after: Seq<T>)
    requires #[trigger] extend_post(before, it, after), it.obeys_prophetic_iter_laws(),
    ensures after == before + it.remaining(), it.will_return_none();
// ... or a Vec
pub broadcast axiom fn extend_postcondition_vec<T>(before: Seq<T>, it: Vec<T>, after: Seq<T>)
    requires #[trigger] extend_post(before, it, after),
    ensures after == before + it@;



// ---- repeat (only ever used through the R9 hole `vx_repeat_take`) ----
#[verifier::external_type_specification]
#[verifier::external_body]
#[verifier::reject_recursive_types(T)]
pub struct ExRepeat<T>(core::iter::Repeat<T>);

// ---- reflexive conversion `impl<T> From<T> for T` is the identity ----
pub assume_specification<T>[ <T as core::convert::From<T>>::from ](t: T) -> (r: T)
    ensures r == t;

// ---- the `?` operator converts the error with `From::from` (vstd leaves its `spec_from` uninterpreted) ----
pub broadcast axiom fn ax_try_uses_from<T, S: core::convert::From<T>>(value: T, ret: S)
    requires #[trigger] vstd::std_specs::control_flow::spec_from(value, ret),
    ensures <S as vstd::std_specs::convert::FromSpec<T>>::obeys_from_spec() ==> ret == <S as vstd::std_specs::convert::FromSpec<T>>::from_spec(value);

pub broadcast group vx_axioms {
    chain_postcondition, enumerate_postcondition, extend_postcondition, extend_postcondition_iter, extend_postcondition_vec, ax_try_uses_from,
}

// ---- cloning a chain of cloneable iterators yields an iterator in the same state (same remaining elements) ----
pub assume_specification<A: Clone, B: Clone>[ <Chain<A, B> as Clone>::clone ](c: &Chain<A, B>) -> (r: Chain<A, B>)
    ensures r == *c;

// ---- `&mut vec[range]`: same contract vstd gives for arrays (re-slice the whole vector, then index the slice) ----
pub assume_specification<T, I: core::slice::SliceIndex<[T]>, A: core::alloc::Allocator>[ <Vec<T, A> as core::ops::IndexMut<I>>::index_mut ](v: &mut Vec<T, A>, index: I) -> (output: &mut <Vec<T, A> as core::ops::Index<I>>::Output)
    ensures exists|slice: &mut [T]| (#[trigger] slice@) == old(v)@ && final(slice)@ == final(v)@
        && call_ensures(<[T] as core::ops::IndexMut<I>>::index_mut, (slice, index), output);
