// ===== mod vx: assumed specifications for std items that vstd 0.2026.09.13 does not cover =====
// A7 of DESIGN.md §7.  Every item here is an *assumption* (external_body / assume_specification /
// axiom / uninterp) and is counted by the mechanical trusted-base scan.  The shapes follow vstd's
// own specs for take/zip/map (prophetic `remaining()` model).
use core::iter::{Chain, Once, Cloned, Enumerate};
use vstd::std_specs::iter::{IteratorSpec};

// ---- chain ----
#[verifier::external_type_specification]
#[verifier::external_body]
#[verifier::reject_recursive_types(A)]
#[verifier::reject_recursive_types(B)]
pub struct ExChain<A, B>(Chain<A, B>);

pub uninterp spec fn chain_post<I, U: IntoIterator>(a: I, other: U, r: Chain<I, U::IntoIter>) -> bool;
pub uninterp spec fn chain_snd<A, B>(r: Chain<A, B>) -> B;

pub trait VxIterChain: Iterator + Sized {
    fn vx_chain<U: IntoIterator<Item = Self::Item>>(self, other: U) -> (r: Chain<Self, U::IntoIter>)
        ensures chain_post(self, other, r);
}
impl<I: Iterator + Sized> VxIterChain for I {
    #[verifier::external_body]
    fn vx_chain<U: IntoIterator<Item = Self::Item>>(self, other: U) -> (r: Chain<Self, U::IntoIter>)
    { self.chain(other) }
}
pub broadcast axiom fn chain_postcondition<I: Iterator, U: IntoIterator<Item = I::Item>>(a: I, other: U, r: Chain<I, U::IntoIter>)
    requires
        a.obeys_prophetic_iter_laws(),
        #[trigger] chain_post(a, other, r),
    ensures
        call_ensures(U::into_iter, (other,), chain_snd(r)),
        chain_snd(r).obeys_prophetic_iter_laws() ==> r.obeys_prophetic_iter_laws(),
        r.remaining() == a.remaining() + chain_snd(r).remaining(),
        r.will_return_none() == (a.will_return_none() && chain_snd(r).will_return_none()),
        r.decrease() is Some == (a.decrease() is Some && chain_snd(r).decrease() is Some),
;

// ---- once ----
#[verifier::external_type_specification]
#[verifier::external_body]
#[verifier::reject_recursive_types(T)]
pub struct ExOnce<T>(Once<T>);

pub assume_specification<T>[ core::iter::once ](v: T) -> (r: Once<T>)
    ensures r.obeys_prophetic_iter_laws(), r.remaining() == seq![v], r.will_return_none(), r.decrease() is Some;

// ---- cloned ----
#[verifier::external_type_specification]
#[verifier::external_body]
#[verifier::reject_recursive_types(I)]
pub struct ExCloned<I>(Cloned<I>);

pub uninterp spec fn cloned_post<T, I>(a: I, r: Cloned<I>) -> bool;
pub trait VxIterCloned<'a, T: 'a + Clone>: Iterator<Item = &'a T> + Sized {
    fn vx_cloned(self) -> (r: Cloned<Self>)
        ensures cloned_post::<T, Self>(self, r);
}
impl<'a, T: 'a + Clone, I: Iterator<Item = &'a T> + Sized> VxIterCloned<'a, T> for I {
    #[verifier::external_body]
    fn vx_cloned(self) -> (r: Cloned<Self>) { self.cloned() }
}
// `cloned()` over a Copy element type: the clone of an element is the element.
pub broadcast axiom fn cloned_postcondition<'a, T: 'a + Copy, I: Iterator<Item = &'a T>>(a: I, r: Cloned<I>)
    requires
        a.obeys_prophetic_iter_laws(),
        #[trigger] cloned_post::<T, I>(a, r),
    ensures
        r.obeys_prophetic_iter_laws(),
        r.remaining().len() == a.remaining().len(),
        forall|k: int| 0 <= k < a.remaining().len() ==> #[trigger] r.remaining()[k] == *a.remaining()[k],
        r.will_return_none() == a.will_return_none(),
        r.decrease() is Some == a.decrease() is Some,
;

// ---- enumerate ----
#[verifier::external_type_specification]
#[verifier::external_body]
#[verifier::reject_recursive_types(I)]
pub struct ExEnumerate<I>(Enumerate<I>);

pub uninterp spec fn enumerate_post<I>(a: I, r: Enumerate<I>) -> bool;
pub trait VxIterEnumerate: Iterator + Sized {
    fn vx_enumerate(self) -> (r: Enumerate<Self>)
        ensures enumerate_post(self, r);
}
impl<I: Iterator + Sized> VxIterEnumerate for I {
    #[verifier::external_body]
    fn vx_enumerate(self) -> (r: Enumerate<Self>) { self.enumerate() }
}
pub broadcast axiom fn enumerate_postcondition<I: Iterator>(a: I, r: Enumerate<I>)
    requires
        a.obeys_prophetic_iter_laws(),
        #[trigger] enumerate_post(a, r),
    ensures
        r.obeys_prophetic_iter_laws(),
        r.remaining().len() == a.remaining().len(),
        forall|k: int| 0 <= k < a.remaining().len() ==> #[trigger] r.remaining()[k] == (k as usize, a.remaining()[k]),
        r.will_return_none() == a.will_return_none(),
        r.decrease() is Some == a.decrease() is Some,
;

// ---- Vec::extend (from anything iterable): appends the remaining elements ----
pub uninterp spec fn extend_post<T, I: IntoIterator<Item = T>>(before: Seq<T>, it: I, after: Seq<T>) -> bool;
pub uninterp spec fn extend_src<T, I: IntoIterator<Item = T>>(before: Seq<T>, it: I, after: Seq<T>) -> I::IntoIter;
pub assume_specification<T, A: core::alloc::Allocator, I: IntoIterator<Item = T>>[ <Vec<T, A> as Extend<T>>::extend ](v: &mut Vec<T, A>, it: I)
    ensures extend_post(old(v)@, it, final(v)@);
pub broadcast axiom fn extend_postcondition<T, I: IntoIterator<Item = T>>(before: Seq<T>, it: I, after: Seq<T>)
    requires #[trigger] extend_post(before, it, after),
    ensures
        call_ensures(I::into_iter, (it,), extend_src(before, it, after)),
        extend_src(before, it, after).obeys_prophetic_iter_laws() ==> after == before + extend_src(before, it, after).remaining(),
;

pub broadcast group vx_axioms {
    chain_postcondition, cloned_postcondition, enumerate_postcondition, extend_postcondition,
}

// ---- repeat (only ever used through the R9 hole `vx_repeat_take`) ----
#[verifier::external_type_specification]
#[verifier::external_body]
#[verifier::reject_recursive_types(T)]
pub struct ExRepeat<T>(core::iter::Repeat<T>);
