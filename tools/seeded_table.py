#!/usr/bin/env python3
"""Markdown table of the seeded changes and what every check said about each (from build/matrix/*.txt, written by tools/matrix.sh)."""
import glob, json, os, re
V = os.path.dirname(os.path.dirname(os.path.abspath(__file__)))
rows = []
for d in sorted(glob.glob(os.path.join(V, 'seeded', '*'))):
    mid = os.path.basename(d)
    try:
        meta = json.load(open(os.path.join(d, 'meta.json')))
    except Exception:
        meta = {}
    what = (meta.get('summary') or '').split('. ')[0][:170]
    res = {}
    f = os.path.join(V, 'build', 'matrix', mid + '.txt')
    if os.path.exists(f):
        for ln in open(f):
            p = ln.split()
            if len(p) < 3:
                continue
            prop = p[1]
            if 'VIOLATION' in ln:
                res[prop] = 'V' + ('' if 'no-failing-input-found' in ln else '*')
            elif 'FAILED OBLIGATION' in ln:
                res[prop] = 'V'   # (line truncated by matrix.sh before the verdict)
            elif 'UNDECIDED' in ln:
                res[prop] = 'u'
            elif ' OK ' in ln:
                res[prop] = '.'
    viol = [p + ('*' if res[p].endswith('*') else '') for p in sorted(res) if res[p].startswith('V')]
    und = [p for p in sorted(res) if res[p] == 'u']
    if res and '--write-meta' in __import__('sys').argv and meta:
        full = {}
        for ln in open(f):
            q = ln.split(None, 2)
            if len(q) == 3:
                v = 'VIOLATION' if ('VIOLATION' in q[2] or 'FAILED OBLIGATION' in q[2]) else 'UNDECIDED' if 'UNDECIDED' in q[2] else 'OK'
                e = {'verdict': v}
                fo = re.findall(r'FAILED OBLIGATION (\S+)', q[2])
                if fo: e['failed_obligations'] = fo
                if v == 'VIOLATION': e['concrete_input'] = 'no-failing-input-found' not in q[2] and 'VIOLATION property' in q[2]
                full[q[1]] = e
        meta['matrix'] = {'tool': 'tools/matrix.sh (snapshot of /verif, scratch copy of /repo with the patch)', 'results': full}
        json.dump(meta, open(os.path.join(d, 'meta.json'), 'w'), indent=1)
    rows.append('| %s | %s | %s | %s |' % (mid, what.replace('|', '/'), ', '.join(viol) or '—', ', '.join(und) or '—'))
print('| change | what it does (first sentence of the author\'s summary) | VIOLATION reported by (* = with a concrete failing input) | undecided (exit 2) |')
print('|---|---|---|---|')
print('\n'.join(rows))
