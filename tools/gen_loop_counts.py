#!/usr/bin/env python3
"""Record, for every function under contract, how many loops its body has in the tree the contracts were written for
(contracts/loop_counts.json).  Run after changing contracts or after a `fix:` commit in /repo:  python3 tools/gen_loop_counts.py"""
import json, os, sys
V = os.path.dirname(os.path.dirname(os.path.abspath(__file__)))
sys.path.insert(0, V)
from vpipe import build, extract, weave, rsparse as rp
repo = sys.argv[1] if len(sys.argv) > 1 else '/repo'
out = {}
for part in ('main', 'zorro'):
    weave.LOOP_BASELINE.clear()
    src, log = extract.extract_all(os.path.join(repo, 'src'))
    b = build.build(repo, V, part=part)
    for spec in b.fnspecs:
        s = src[spec.file]
        m = rp.mask(s)
        f, blk = weave.locate_fn(m, spec)
        if f.has_body:
            out[spec.key] = len(rp.find_loops(m, f.sig_end + 1, f.body_end))
out['__anchors__'] = {k: v for k, v in weave.ANCHOR_CTX_NOW.items() if v}
json.dump(out, open(os.path.join(V, 'contracts', 'loop_counts.json'), 'w'), indent=1, sort_keys=True)
print(len(out) - 1, 'functions;', len(out['__anchors__']), 'hint anchors with context')
