#!/bin/sh
# stability probe: run whole file with spinoff-all under several seeds; list failing functions + slowest
cd /verif && python3 - "$@" <<'PY'
import sys, json, subprocess, time
sys.path.insert(0,'/verif')
from vpipe import build
b=build.build('/repo','/verif')
open('/verif/build/all.rs','w').write(b.text())
seeds=[int(x) for x in sys.argv[1].split(',')] if len(sys.argv)>1 else [0,1,2]
extra=sys.argv[2:]
for sd in seeds:
    t=time.time()
    p=subprocess.run(['verus','all.rs','--cfg','feature="yoloproofs"','--error-format=json','--output-json','--time','--multiple-errors','3','--rlimit','150','--num-threads','16','--smt-option','smt.random_seed=%d'%sd]+extra,cwd='/verif/build',capture_output=True,text=True)
    try: j=json.loads(p.stdout)
    except Exception: print('seed',sd,'no json',p.stderr[-500:]); continue
    fns=[]
    for mod in j['times-ms']['smt']['smt-run-module-times']:
        for fb in mod.get('function-breakdown',[]): fns.append((fb['time'],fb['function'],fb['rlimit'],fb['success']))
    bad=[f for f in fns if not f[3]]
    print('seed',sd,'wall %.0f'%(time.time()-t),j['verification-results']['verified'],'verified; failing:',[(f[1],f[0]) for f in bad])
    print('   slowest:',[(f[1].replace('all::',''),f[0]) for f in sorted(fns)[-6:]])
PY
