#!/bin/bash
# confirm_mutant.sh <worktree> <demo-test-file-stem>  — confirm a seeded change in a scratch worktree:
#   suite green + demo red with the patch, demo green without.  (no git stash: the stash is shared between worktrees)
W=$1; D=$2
cd $W || exit 2
export CARGO_NET_OFFLINE=true
git checkout -q -- src; git apply OUT/patch.diff || exit 2
echo "== with patch: existing suite"
cargo test --offline --no-fail-fast --lib --test r1cs_secq256k1 --test r1cs_zorro --test r1cs_curve25519 2>&1 | grep -E '^test result|FAILED' 
echo "== with patch: demo"
cargo test --offline --no-fail-fast --test $D 2>&1 | grep -E '^test result|^test .*(ok|FAILED)$' | head -20
git checkout -q -- src
echo "== without patch: demo"
cargo test --offline --no-fail-fast --test $D 2>&1 | grep -E '^test result|^test .*(ok|FAILED)$' | head -20
git apply OUT/patch.diff
git diff --stat -- src
