#!/bin/bash
# ingest_mutant.sh <id>  (e.g. C07b): confirm in its scratch worktree, copy to seeded/<id>, remove the worktree
id=$1; W=/tmp/mut_$id; low=$(echo $id | tr 'A-Z' 'a-z')
[ -f $W/OUT/patch.diff ] || { echo "no patch for $id"; exit 2; }
out=$(/verif/tools/confirm_mutant.sh $W demo_$low 2>&1); echo "$out" | tail -25
mkdir -p /verif/seeded/$id
cp $W/OUT/patch.diff /verif/seeded/$id/patch.diff
cp $W/tests/demo_$low.rs /verif/seeded/$id/demo.rs 2>/dev/null || cp $W/OUT/demo.rs /verif/seeded/$id/demo.rs
python3 - "$id" "$W" <<PY
import json,sys
id,W=sys.argv[1],sys.argv[2]
m=json.load(open(W+'/OUT/meta.json'))
m['confirmed_by_framework_author']={'ran':'tools/confirm_mutant.sh %s demo_%s'%(W,id.lower()),'output_tail':'''$(echo "$out" | grep -E "^==|^test result" | tr '\n' ';' | cut -c1-900)'''}
json.dump(m,open('/verif/seeded/%s/meta.json'%id,'w'),indent=1)
PY
git -C /repo worktree remove --force $W && echo "worktree $W removed"
