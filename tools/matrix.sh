#!/bin/sh
# cross-property matrix: every seeded change x every claimed check, on scratch copies (never /repo).
# usage: tools/matrix.sh [mutant ...]   -> build/matrix/<mutant>.txt
# runs from a snapshot copy of /verif (so contracts under development do not leak into the results)
SNAP=/tmp/verif-snap-$$
rsync -a --exclude build --exclude replays --exclude .git /verif/ $SNAP/
mkdir -p /verif/build/matrix $SNAP/build
OUTD=/verif/build/matrix
cd $SNAP
MUTS="$@"
[ -z "$MUTS" ] && MUTS=$(ls seeded)
PROPS=$(python3 -c "import json;print(' '.join(c['property_id'] for c in json.load(open('MANIFEST.json'))['checks']))")
for m in $MUTS; do
  S=$(mktemp -d /tmp/verif-matrix-XXXXXX)
  rsync -a --exclude target --exclude .git /repo/ "$S"/
  (cd "$S" && git apply --include='src/*' /verif/seeded/$m/patch.diff) || { echo "$m: patch does not apply" > $OUTD/$m.txt; rm -rf "$S"; continue; }
  : > $OUTD/$m.txt
  for p in $PROPS; do
    out=$(VERIF_NO_RESEED=1 ./check $p --repo "$S" --no-evidence 2>&1 | grep -E "^OK|^VIOLATION|UNDECIDED|^FAILED OBLIGATION" | tr '\n' ' ' | sed "s#$S#SCRATCH#g" | cut -c1-400)
    echo "$m $p $out" >> $OUTD/$m.txt
  done
  rm -rf "$S"
done
rm -rf $SNAP
