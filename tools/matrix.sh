#!/bin/sh
# cross-property matrix: every seeded change x every claimed check, on scratch copies (never /repo).
# usage: tools/matrix.sh [mutant ...]   -> build/matrix/<mutant>.txt
cd /verif
mkdir -p build/matrix
MUTS="$@"
[ -z "$MUTS" ] && MUTS=$(ls seeded)
PROPS=$(python3 -c "import json;print(' '.join(c['property_id'] for c in json.load(open('MANIFEST.json'))['checks']))")
for m in $MUTS; do
  S=$(mktemp -d /tmp/verif-matrix-XXXXXX)
  cp -r /repo/src /repo/Cargo.toml /repo/Cargo.lock "$S"/ 2>/dev/null
  (cd "$S" && git apply --include='src/*' /verif/seeded/$m/patch.diff) || { echo "$m: patch does not apply" > build/matrix/$m.txt; rm -rf "$S"; continue; }
  : > build/matrix/$m.txt
  for p in $PROPS; do
    out=$(./check $p --repo "$S" --no-evidence 2>&1 | grep -E "^OK|^VIOLATION|UNDECIDED|^FAILED OBLIGATION" | tr '\n' ' ' | sed "s#$S#SCRATCH#g" | cut -c1-400)
    echo "$m $p $out" >> build/matrix/$m.txt
  done
  rm -rf "$S"
done
